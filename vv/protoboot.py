"""Prototype: build vizier *_pb2 / *_pb2_grpc modules from the .proto sources at import time.

No protoc / grpc_tools exist in this sandbox, so the descriptors are built by a
small proto3 parser and registered in the default descriptor pool.
"""
import importlib
import importlib.abc
import importlib.util
import os
import re
import sys
import types

from google.protobuf import descriptor_pb2 as dpb
from google.protobuf import descriptor_pool
from google.protobuf.internal import builder as _builder

F = dpb.FieldDescriptorProto
SCALARS = {
    'double': F.TYPE_DOUBLE, 'float': F.TYPE_FLOAT, 'int32': F.TYPE_INT32,
    'int64': F.TYPE_INT64, 'uint32': F.TYPE_UINT32, 'uint64': F.TYPE_UINT64,
    'sint32': F.TYPE_SINT32, 'sint64': F.TYPE_SINT64, 'fixed32': F.TYPE_FIXED32,
    'fixed64': F.TYPE_FIXED64, 'sfixed32': F.TYPE_SFIXED32,
    'sfixed64': F.TYPE_SFIXED64, 'bool': F.TYPE_BOOL, 'string': F.TYPE_STRING,
    'bytes': F.TYPE_BYTES,
}

_TOKEN = re.compile(
    r'\s+|//[^\n]*|/\*.*?\*/|("(?:\\.|[^"\\])*")|(\'(?:\\.|[^\'\\])*\')|'
    r'([A-Za-z_][A-Za-z0-9_.]*)|(-?[0-9][0-9A-Za-z_.+-]*)|(.)', re.S)


def tokenize(text):
  out = []
  for m in _TOKEN.finditer(text):
    if m.group(1) or m.group(2):
      out.append(('str', (m.group(1) or m.group(2))[1:-1]))
    elif m.group(3):
      out.append(('id', m.group(3)))
    elif m.group(4):
      out.append(('num', m.group(4)))
    elif m.group(5):
      out.append(('sym', m.group(5)))
  return out


class Parser:

  def __init__(self, text):
    self.t = tokenize(text)
    self.i = 0

  def peek(self):
    return self.t[self.i] if self.i < len(self.t) else (None, None)

  def next(self):
    tok = self.t[self.i]
    self.i += 1
    return tok

  def expect(self, val):
    tok = self.next()
    if tok[1] != val:
      raise SyntaxError(f'expected {val!r} got {tok!r} at {self.i}')
    return tok

  def skip_balanced(self, open_, close):
    depth = 1
    while depth:
      tok = self.next()
      if tok[0] == 'sym' and tok[1] == open_:
        depth += 1
      elif tok[0] == 'sym' and tok[1] == close:
        depth -= 1

  def skip_statement(self):
    # skips up to ';' handling nested {...}
    while True:
      tok = self.next()
      if tok == ('sym', '{'):
        self.skip_balanced('{', '}')
      elif tok == ('sym', ';'):
        return

  def skip_field_options(self):
    if self.peek() == ('sym', '['):
      self.next()
      self.skip_balanced('[', ']')

  def parse_file(self):
    f = dict(package='', imports=[], messages=[], enums=[], services=[])
    while self.i < len(self.t):
      kind, val = self.next()
      if val == 'syntax':
        self.expect('=')
        assert self.next()[1] == 'proto3'
        self.expect(';')
      elif val == 'package':
        f['package'] = self.next()[1]
        self.expect(';')
      elif val == 'import':
        tok = self.next()
        if tok[0] == 'id':  # public / weak
          tok = self.next()
        f['imports'].append(tok[1])
        self.expect(';')
      elif val == 'option':
        self.skip_statement()
      elif val == 'message':
        f['messages'].append(self.parse_message())
      elif val == 'enum':
        f['enums'].append(self.parse_enum())
      elif val == 'service':
        f['services'].append(self.parse_service())
      elif val == ';':
        pass
      else:
        raise SyntaxError(f'unexpected top-level token {val!r}')
    return f

  def parse_enum(self):
    name = self.next()[1]
    self.expect('{')
    values = []
    while self.peek() != ('sym', '}'):
      kind, val = self.next()
      if val in ('option', 'reserved'):
        self.skip_statement()
        continue
      if val == ';':
        continue
      self.expect('=')
      num = int(self.next()[1])
      self.skip_field_options()
      self.expect(';')
      values.append((val, num))
    self.expect('}')
    return dict(name=name, values=values)

  def parse_field(self, first, oneof_index=None):
    label = None
    if first in ('repeated', 'optional', 'required'):
      label = first
      first = self.next()[1]
    if first == 'map':
      raise NotImplementedError('map<> fields')
    ftype = first
    name = self.next()[1]
    self.expect('=')
    num = int(self.next()[1])
    self.skip_field_options()
    self.expect(';')
    return dict(label=label, type=ftype, name=name, number=num,
                oneof_index=oneof_index)

  def parse_message(self):
    name = self.next()[1]
    self.expect('{')
    msg = dict(name=name, fields=[], messages=[], enums=[], oneofs=[],
               reserved=[])
    while self.peek() != ('sym', '}'):
      kind, val = self.next()
      if val == 'option' or val == 'extensions':
        self.skip_statement()
      elif val == 'reserved':
        nums = []
        while True:
          tok = self.next()
          if tok == ('sym', ';'):
            break
          if tok[0] == 'num':
            nums.append(int(tok[1]))
        msg['reserved'].append(nums)
      elif val == 'message':
        msg['messages'].append(self.parse_message())
      elif val == 'enum':
        msg['enums'].append(self.parse_enum())
      elif val == 'oneof':
        oname = self.next()[1]
        idx = len(msg['oneofs'])
        msg['oneofs'].append(oname)
        self.expect('{')
        while self.peek() != ('sym', '}'):
          k2, v2 = self.next()
          if v2 == 'option':
            self.skip_statement()
            continue
          if v2 == ';':
            continue
          msg['fields'].append(self.parse_field(v2, oneof_index=idx))
        self.expect('}')
      elif val == ';':
        pass
      else:
        msg['fields'].append(self.parse_field(val))
    self.expect('}')
    return msg

  def parse_service(self):
    name = self.next()[1]
    self.expect('{')
    methods = []
    while self.peek() != ('sym', '}'):
      kind, val = self.next()
      if val == 'option':
        self.skip_statement()
        continue
      if val == ';':
        continue
      assert val == 'rpc', val
      mname = self.next()[1]
      self.expect('(')
      cs = False
      tok = self.next()[1]
      if tok == 'stream':
        cs, tok = True, self.next()[1]
      req = tok
      self.expect(')')
      self.expect('returns')
      self.expect('(')
      ss = False
      tok = self.next()[1]
      if tok == 'stream':
        ss, tok = True, self.next()[1]
      resp = tok
      self.expect(')')
      tok = self.next()
      if tok == ('sym', '{'):
        self.skip_balanced('{', '}')
      methods.append(dict(name=mname, input=req, output=resp,
                          client_streaming=cs, server_streaming=ss))
    self.expect('}')
    return dict(name=name, methods=methods)


def _collect_symbols(prefix, messages, enums, table):
  for e in enums:
    table[f'{prefix}.{e["name"]}'] = 'enum'
  for m in messages:
    full = f'{prefix}.{m["name"]}'
    table[full] = 'message'
    _collect_symbols(full, m['messages'], m['enums'], table)


def _to_camel(name):
  out, up = [], False
  for ch in name:
    if ch == '_':
      up = True
    elif up:
      out.append(ch.upper())
      up = False
    else:
      out.append(ch)
  return ''.join(out)


class Builder:

  def __init__(self, pool, local_symbols):
    self.pool = pool
    self.symbols = local_symbols  # full name (leading dot) -> kind

  def resolve(self, type_name, scope):
    """protoc scoping: innermost scope outwards."""
    if type_name.startswith('.'):
      cands = [type_name]
    else:
      parts = scope.split('.')
      cands = []
      for k in range(len(parts), 0, -1):
        cands.append('.'.join(parts[:k]) + '.' + type_name)
      cands.append('.' + type_name)
    first = type_name.lstrip('.').split('.')[0]
    for c in cands:
      if c in self.symbols:
        return c, self.symbols[c]
      try:
        self.pool.FindMessageTypeByName(c[1:])
        return c, 'message'
      except KeyError:
        pass
      try:
        self.pool.FindEnumTypeByName(c[1:])
        return c, 'enum'
      except KeyError:
        pass
    raise KeyError(f'cannot resolve {type_name} in {scope}')

  def fill_enum(self, ep, e):
    ep.name = e['name']
    for n, v in e['values']:
      ep.value.add(name=n, number=v)

  def fill_message(self, mp, m, scope):
    mp.name = m['name']
    full = f'{scope}.{m["name"]}'
    for o in m['oneofs']:
      mp.oneof_decl.add(name=o)
    synthetic = []
    for f in m['fields']:
      fp = mp.field.add(name=f['name'], number=f['number'],
                        json_name=_to_camel(f['name']))
      fp.label = (F.LABEL_REPEATED if f['label'] == 'repeated'
                  else F.LABEL_OPTIONAL)
      if f['type'] in SCALARS:
        fp.type = SCALARS[f['type']]
      else:
        tname, kind = self.resolve(f['type'], full)
        fp.type_name = tname
        fp.type = F.TYPE_MESSAGE if kind == 'message' else F.TYPE_ENUM
      if f['oneof_index'] is not None:
        fp.oneof_index = f['oneof_index']
      elif f['label'] == 'optional':
        fp.proto3_optional = True
        synthetic.append(fp)
    for fp in synthetic:
      fp.oneof_index = len(mp.oneof_decl)
      mp.oneof_decl.add(name='_' + fp.name)
    for nums in m['reserved']:
      for n in nums:
        mp.reserved_range.add(start=n, end=n + 1)
    for e in m['enums']:
      self.fill_enum(mp.enum_type.add(), e)
    for sub in m['messages']:
      self.fill_message(mp.nested_type.add(), sub, full)


def build_file_descriptor_proto(path, rel_name, pool, importable):
  with open(path) as fh:
    parsed = Parser(fh.read()).parse_file()
  fdp = dpb.FileDescriptorProto(name=rel_name, package=parsed['package'],
                                syntax='proto3')
  for imp in parsed['imports']:
    if importable(imp):
      fdp.dependency.append(imp)
  scope = '.' + parsed['package'] if parsed['package'] else ''
  table = {}
  _collect_symbols(scope, parsed['messages'], parsed['enums'], table)
  b = Builder(pool, table)
  for e in parsed['enums']:
    b.fill_enum(fdp.enum_type.add(), e)
  for m in parsed['messages']:
    b.fill_message(fdp.message_type.add(), m, scope)
  for s in parsed['services']:
    sp = fdp.service.add(name=s['name'])
    for me in s['methods']:
      sp.method.add(name=me['name'],
                    input_type=b.resolve(me['input'], scope)[0],
                    output_type=b.resolve(me['output'], scope)[0],
                    client_streaming=me['client_streaming'],
                    server_streaming=me['server_streaming'])
  return fdp, parsed


_PKG = 'vizier._src.service'
_ORDER = ['key_value', 'study', 'vizier_oss', 'vizier_service', 'pythia_service']


def _make_grpc_module(modname, pb2_mod, parsed):
  import grpc
  mod = types.ModuleType(modname)
  pool = descriptor_pool.Default()
  from google.protobuf import message_factory

  def cls_for(full):
    return message_factory.GetMessageClass(
        pool.FindMessageTypeByName(full.lstrip('.')))

  for s in pb2_mod.DESCRIPTOR.services_by_name.values():
    sname = s.name
    full_service = s.full_name
    methods = [(m.name, cls_for(m.input_type.full_name),
                cls_for(m.output_type.full_name)) for m in s.methods]

    def _stub_init(self, channel, _methods=methods, _fs=full_service):
      for name, req, resp in _methods:
        setattr(self, name, channel.unary_unary(
            f'/{_fs}/{name}',
            request_serializer=req.SerializeToString,
            response_deserializer=resp.FromString))

    stub = type(f'{sname}Stub', (object,), {'__init__': _stub_init})

    def _mk_unimpl(name):
      def method(self, request, context):
        context.set_code(grpc.StatusCode.UNIMPLEMENTED)
        context.set_details('Method not implemented!')
        raise NotImplementedError('Method not implemented!')
      method.__name__ = name
      return method

    servicer = type(f'{sname}Servicer', (object,),
                    {name: _mk_unimpl(name) for name, _, _ in methods})

    def _add(servicer_obj, server, _methods=methods, _fs=full_service):
      handlers = {
          name: grpc.unary_unary_rpc_method_handler(
              getattr(servicer_obj, name),
              request_deserializer=req.FromString,
              response_serializer=resp.SerializeToString)
          for name, req, resp in _methods
      }
      server.add_generic_rpc_handlers(
          (grpc.method_handlers_generic_handler(_fs, handlers),))

    setattr(mod, f'{sname}Stub', stub)
    setattr(mod, f'{sname}Servicer', servicer)
    setattr(mod, f'add_{sname}Servicer_to_server', _add)
  return mod


class _Finder(importlib.abc.MetaPathFinder, importlib.abc.Loader):

  def __init__(self, proto_dir):
    self.proto_dir = proto_dir
    self.parsed = {}

  def find_spec(self, fullname, path, target=None):
    if not fullname.startswith(_PKG + '.'):
      return None
    leaf = fullname[len(_PKG) + 1:]
    base = leaf[:-len('_pb2_grpc')] if leaf.endswith('_pb2_grpc') else (
        leaf[:-len('_pb2')] if leaf.endswith('_pb2') else None)
    if base is None or not os.path.exists(
        os.path.join(self.proto_dir, base + '.proto')):
      return None
    return importlib.util.spec_from_loader(fullname, self)

  def create_module(self, spec):
    return None

  def exec_module(self, module):
    fullname = module.__name__
    leaf = fullname[len(_PKG) + 1:]
    if leaf.endswith('_pb2_grpc'):
      base = leaf[:-len('_pb2_grpc')]
      pb2 = importlib.import_module(f'{_PKG}.{base}_pb2')
      g = _make_grpc_module(fullname, pb2, self.parsed[base])
      module.__dict__.update(
          {k: v for k, v in g.__dict__.items() if not k.startswith('__')})
      return
    base = leaf[:-len('_pb2')]
    pool = descriptor_pool.Default()

    def importable(imp):
      if imp.startswith('google/'):
        try:
          importlib.import_module(imp[:-len('.proto')].replace('/', '.') + '_pb2')
          return True
        except ImportError:
          return False
      local = imp[:-len('.proto')]
      importlib.import_module(f'{_PKG}.{local}_pb2')
      return True

    path = os.path.join(self.proto_dir, base + '.proto')
    # first make sure deps are loaded (so resolve() can see them)
    with open(path) as fh:
      pre = Parser(fh.read()).parse_file()
    for imp in pre['imports']:
      importable(imp)
    fdp, parsed = build_file_descriptor_proto(path, base + '.proto', pool,
                                              importable)
    self.parsed[base] = parsed
    desc = pool.AddSerializedFile(fdp.SerializeToString())
    module.DESCRIPTOR = desc
    _builder.BuildMessageAndEnumDescriptors(desc, module.__dict__)
    _builder.BuildTopDescriptorsAndMessages(desc, fullname, module.__dict__)


def install(repo='/repo'):
  proto_dir = os.path.join(repo, 'vizier', '_src', 'service')
  for f in sys.meta_path:
    if isinstance(f, _Finder):
      return
  sys.meta_path.insert(0, _Finder(proto_dir))
