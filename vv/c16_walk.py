"""C16 families 'walk' (SequentialParameterBuilder) and 'client' (Study.add_trial)."""
from vv import gen
from vv import c16_cond as cond
from vv.c16_util import enc, dec, xmember, pack_tree, case_tree


# ---------------------------------------------------------------------------
# walk
# ---------------------------------------------------------------------------
def gen_walk_case(rng):
  depth = rng.choice([0, 1, 1, 2, 2, 3, 3])
  tree = cond.gen_tree(rng, depth, p_parent=0.75, max_top=3)
  choices = cond.draw_choices(rng, tree, p_child_bias=0.7)
  skipped = sorted(n for n in choices if rng.random() < 0.08)
  return tree, choices, skipped


def exec_walk(ctx, tree, choices, skipped, order, space=None, case=None, prefix='walk'):
  """`space`: walk this object (e.g. the space a study serves) instead of the one
  built locally from `tree`; `case` / `prefix`: replay record and mechanism prefix
  of the calling family."""
  from vizier._src.pyvizier.shared import parameter_iterators as pi
  case = case or {'family': 'walk', 'tree': tree, 'tree_json': pack_tree(tree),
                  'choices': enc(choices), 'skipped': skipped, 'order': order}
  eff = {n: (None if n in skipped else v) for n, v in choices.items()}
  oracle = cond.active_walk(tree, eff)
  want = [p['name'] for p, _ in oracle]
  depth_of = cond.param_depths(tree)
  params = cond.all_params(tree)
  n_deep = sum(1 for _, d in oracle if d >= 1)
  ctx.case([prefix, cond.tree_shape(tree), order, len(want), n_deep, len(skipped)],
           cond.tree_depth(tree) >= 1)
  if space is None:
    space = cond.build_tree(tree)
  seen = []
  try:
    b = pi.SequentialParameterBuilder(space, traverse_order=order)
    for pc in b:
      seen.append((pc.name, pc.type.name))
      if len(seen) > 4 * len(params) + 8:
        break
      v = eff.get(pc.name)
      if v is None:
        b.skip()
      else:
        b.choose_value(v)
    result = b.parameters.as_dict()
  except Exception as e:  # pylint: disable=broad-except
    ctx.violation(f'{prefix}:{order}:raised:{type(e).__name__}',
                  f'SequentialParameterBuilder raised {type(e).__name__}: {e}', case,
                  {'seen': seen})
    return
  ctx.count('walks_checked')
  if n_deep:
    ctx.count('walks_with_active_children')
  if len(want) < len(params):
    ctx.count('walks_with_inactive_params')
  names = [n for n, _ in seen]
  dtag = f'depth{max([d for _, d in oracle] + [0])}'
  if sorted(names) != sorted(want):
    missing = sorted(set(want) - set(names))
    extra = sorted(set(names) - set(want))
    if extra:
      kind = ('visited-inactive-child' if any(depth_of.get(n, 0) >= 1 for n in extra)
              else 'visited-inactive')
    elif missing:
      kind = 'missed-active'
    else:
      kind = 'visited-twice'
    ctx.violation(f'{prefix}:{order}:{kind}',
                  f'walk ({order}) visited {names}, active set is {want}', case,
                  {'missing': missing, 'extra': extra, 'depth': dtag})
    return
  pos = {n: i for i, n in enumerate(names)}
  # a child can only become active after its parent got a value
  parent_of = {}

  def rec(plist, par):
    for p in plist:
      if par is not None:
        parent_of.setdefault(p['name'], par)
      for _vals, kids in p.get('children', []):
        rec(kids, p['name'])
  rec(tree, None)
  for n in names:
    if n in parent_of and pos[parent_of[n]] > pos[n]:
      ctx.violation(f'{prefix}:{order}:child-before-parent', f'{n} visited before {parent_of[n]}',
                    case, {'seen': names})
      return
  for n, t in seen:
    kind = params[n]['kind']
    if (kind if kind != 'BOOL' else 'CATEGORICAL') != t:
      ctx.violation(f'{prefix}:{order}:wrong-config-yielded', f'{n}: yielded type {t}, is {kind}',
                    case)
      return
  exp = {n: eff[n] for n in want if eff.get(n) is not None}
  same = sorted(result) == sorted(exp) and all(
      result[n] == exp[n] and isinstance(result[n], str) == isinstance(exp[n], str)
      for n in exp)
  ctx.count('walk_results_checked')
  if not same:
    ctx.violation(f'{prefix}:{order}:result-mismatch',
                  f'builder.parameters {result} != chosen values {exp}', case)


def replay_walk(ctx, case):
  exec_walk(ctx, case_tree(case), dec(case['choices']), case['skipped'], case['order'])


# ---------------------------------------------------------------------------
# client add_trial
# ---------------------------------------------------------------------------
_SERVICERS = {}


def servicer(backend):
  from vizier._src.service import vizier_service
  if backend not in _SERVICERS:
    url = None if backend == 'ram' else 'sqlite:///:memory:'
    _SERVICERS[backend] = vizier_service.VizierServicer(database_url=url)
  return _SERVICERS[backend]


_STUDY_SEQ = [0]


def make_study(service, space, tag, algorithm='RANDOM_SEARCH'):
  from vizier.service import pyvizier as vz
  from vizier._src.service import clients, resources, study_pb2, vizier_client
  from vizier._src.service import vizier_service_pb2
  _STUDY_SEQ[0] += 1
  sc = vz.StudyConfig(search_space=space, algorithm=algorithm)
  sc.metric_information.append(
      vz.MetricInformation(name='m', goal=vz.ObjectiveMetricGoal.MAXIMIZE))
  st = study_pb2.Study(display_name=f'{tag}-{_STUDY_SEQ[0]}', study_spec=sc.to_proto())
  st = service.CreateStudy(vizier_service_pb2.CreateStudyRequest(
      parent=resources.OwnerResource('vv').name, study=st))
  return clients.Study(vizier_client.VizierClient(st.name, 'vv-client', service))


def exec_client(ctx, backend, desc, trials):
  """trials: list of (assignment, labels, cls). One study, several add_trial calls."""
  from vizier.service import pyvizier as vz
  space = gen.build_space(desc)
  study = make_study(servicer(backend), space, f'c16-{ctx.seed}')
  stored = 0
  for a, labels, cls in trials:
    case = {'family': 'client', 'backend': backend, 'desc': desc,
            'trials': [[enc(a), labels, cls]]}
    bad = sorted(l for l in labels.values() if l not in ('feasible', 'boundary'))
    tag = f'{cls}:{bad[0] if bad else "feasible"}'
    exp = xmember(desc, a)
    ctx.case(['client', backend, gen.space_shape(desc), cls, sorted(labels.values())],
             bool(desc))
    try:
      trial = vz.Trial(parameters=a)
    except Exception:  # pylint: disable=broad-except
      ctx.count('client_assignments_not_representable')
      continue
    try:
      t = study.add_trial(trial)
      err = None
    except Exception as e:  # pylint: disable=broad-except
      t, err = None, e
    n_after = len(list(study.trials().get()))
    if exp is None:
      ctx.count('client_unspecified_bool_assignments')
      stored = n_after
      continue
    ctx.count('add_trial_checked')
    if err is not None:
      if exp:
        ctx.violation(f'add_trial:rejected-member:{tag}:{type(err).__name__}',
                      f'Study.add_trial refused a member trial: {type(err).__name__}: {err}',
                      case)
      else:
        ctx.count('add_trial_refusals')
        if not isinstance(err, ValueError):
          ctx.count(f'add_trial_refused_with:{tag}:{type(err).__name__}')
        if n_after != stored:
          ctx.violation(f'add_trial:stored-despite-refusal:{tag}',
                        f'trial count went {stored} -> {n_after} although add_trial raised',
                        case)
      stored = n_after
      continue
    if not exp:
      ctx.violation(f'add_trial:accepted-nonmember:{tag}',
                    f'Study.add_trial accepted a trial outside the space '
                    f'({gen.why_not_member(desc, a) if sorted(a) == sorted(p["name"] for p in desc) else "key set differs"})',
                    case)
      stored = n_after
      continue
    ctx.count('add_trial_accepted_members')
    if n_after != stored + 1:
      ctx.violation('add_trial:member-not-stored',
                    f'trial count went {stored} -> {n_after} after an accepted add_trial', case)
    else:
      got = study.get_trial(t.id).materialize().parameters.as_dict()
      if sorted(got) != sorted(a) or any(got[k] != a[k] for k in a):
        ctx.violation('add_trial:stored-values-differ', f'stored {got} != given {a}', case)
    stored = n_after


def exec_client_conditional(ctx, backend, tree, a, valid):
  """`valid`: the assignment is exactly the active set with feasible values.

  For a valid trial the library may refuse (NotImplementedError today) or, if it
  ever learns to decide conditional membership, accept; for an invalid one
  (unknown key added) acceptance is a wrong answer.
  """
  from vizier.service import pyvizier as vz
  case = {'family': 'client-cond', 'backend': backend, 'tree': tree,
          'tree_json': pack_tree(tree), 'assignment': enc(a), 'valid': valid}
  study = make_study(servicer(backend), cond.build_tree(tree), f'c16c-{ctx.seed}')
  ctx.case(['client-cond', backend, cond.tree_shape(tree), valid], True)
  try:
    study.add_trial(vz.Trial(parameters=a))
    err = None
  except Exception as e:  # pylint: disable=broad-except
    err = e
  n = len(list(study.trials().get()))
  ctx.count('client_conditional_checked')
  if err is None:
    if not valid:
      ctx.violation('add_trial:conditional-accepted-nonmember',
                    'Study.add_trial accepted a trial with an unknown parameter for a '
                    'conditional space', case)
    else:
      ctx.count('client_conditional_valid_accepted')
  else:
    ctx.count(f'client_conditional_refused_with:{type(err).__name__}')
    if n != 0:
      ctx.violation('add_trial:conditional-stored-despite-refusal', f'{n} trials stored',
                    case)


def replay_client(ctx, case):
  if case['family'] == 'client-cond':
    exec_client_conditional(ctx, case['backend'], case_tree(case), dec(case['assignment']),
                            case['valid'])
  else:
    exec_client(ctx, case['backend'], case['desc'],
                [(dec(a), l, c) for a, l, c in case['trials']])
