"""Entry point of every check.

  python -m vv.run C09 --tier quick            # driver: shards over subprocesses
  python -m vv.run C09 --replay replays/C09/x.json
  python -m vv.run C09 --tier quick --worker --shard 0 --nshards 8 --out f

Exit 0 = held on everything explored (KNOWN-FINDING lines allowed),
exit 1 = `VIOLATION property=<id> replay=<path>` printed,
exit 2 = `INCONCLUSIVE property=<id> reason=...`.
"""
import argparse
import importlib
import json
import os
import shutil
import subprocess
import sys
import tempfile
import time

VERIF = os.path.dirname(os.path.dirname(os.path.abspath(__file__)))
if VERIF not in sys.path:
  sys.path.insert(0, VERIF)

from vv import common  # noqa: E402

DEFAULT_SHARDS = {'quick': 12, 'thorough': 16}
DEFAULT_BUDGET = {'quick': 100.0, 'thorough': 1200.0}


def load_check(prop):
  return importlib.import_module(f'vv.checks.{prop.lower()}')


def worker_main(args):
  import vv.boot  # noqa: F401  (must be first: import hook + shims)
  mod = load_check(args.property)
  ctx = common.Ctx(args.property, args.tier, args.seed, args.shard,
                   args.nshards, args.budget)
  if not args.replay:
    ctx.checkpoint_path = args.out + '.partial'
  # The process time zone is part of the environment the code runs in (naive local vs
  # naive UTC datetimes): shards run under different zones (POSIX TZ strings, no tzdata
  # needed); a replay runs under the zone recorded with the case.
  tz = None
  if args.replay:
    try:
      with open(args.replay) as fh:
        tz = (json.load(fh).get('case') or {}).get('_tz')
    except Exception:  # pylint: disable=broad-except
      tz = None
  if tz is None and not args.replay:
    tz = common.TIME_ZONES[(args.shard + args.seed) % len(common.TIME_ZONES)]
  if tz:
    os.environ['TZ'] = tz
    time.tzset()
    ctx.time_zone = tz
    ctx.count('shards_under_time_zone:' + tz)
  # driver self-test: 'k:path' makes shard k die once from SIGSEGV (path marks "already died")
  st = os.environ.get('VV_SELFTEST_KILL_SHARD', '')
  if st and st.split(':', 1)[0] == str(args.shard) and not os.path.exists(st.split(':', 1)[1]):
    open(st.split(':', 1)[1], 'w').close()
    import signal
    os.kill(os.getpid(), signal.SIGSEGV)
  try:
    if args.replay:
      with open(args.replay) as fh:
        rec = json.load(fh)
      mod.replay(ctx, rec['case'])
    else:
      mod.run_shard(ctx)
  except common.RepoRefusedValidInput as e:
    ctx.violation(e.mech, e.what, e.case)
    ctx.note('shard stopped at a valid input the repository refused')
  except Exception as e:  # pylint: disable=broad-except
    import traceback
    ctx.inconclusive_reason(
        f'shard-crashed {type(e).__name__}: {e}\n' + traceback.format_exc())
  with open(args.out, 'w') as fh:
    json.dump(ctx.result(), fh)
  return 0


def driver_main(args):
  t0 = time.time()
  prop = args.property
  tier = args.tier
  seed = args.seed
  # import of the check module in the driver is metadata only; the module must
  # not import vizier at module import time outside functions... it may: so we
  # read metadata through a tiny subprocess-free trick: check modules keep
  # vizier imports inside functions or behind vv.boot.
  import vv.boot  # noqa: F401
  mod = load_check(prop)
  plan = mod.plan(tier, seed) if hasattr(mod, 'plan') else {}
  nshards = int(os.environ.get('VV_SHARDS', 0)) or plan.get(
      'shards', DEFAULT_SHARDS[tier])
  budget = float(os.environ.get('VV_BUDGET_S', 0)) or plan.get(
      'budget_s', DEFAULT_BUDGET[tier])
  watchdog = plan.get('watchdog_s', budget * 3 + 240)
  tmp = tempfile.mkdtemp(prefix=f'vv-{prop}-')
  procs = []
  env = dict(os.environ)
  env['PYTHONHASHSEED'] = env.get('PYTHONHASHSEED', '0')
  env['VV_WATCHDOG_S'] = str(int(watchdog + 60))
  env['VV_TMP'] = tmp
  if args.replay:
    nshards = 1
  def launch(k, attempt):
    out = os.path.join(tmp, f'shard{k}.json')
    cmd = [sys.executable, '-m', 'vv.run', prop, '--tier', tier, '--worker',
           '--shard', str(k), '--nshards', str(nshards), '--out', out,
           '--seed', str(seed), '--budget', str(budget)]
    if args.replay:
      cmd += ['--replay', os.path.abspath(args.replay)]
    log = open(os.path.join(tmp, f'shard{k}.{attempt}.log'), 'w')
    return (k, out, log, subprocess.Popen(
        cmd, cwd=VERIF, env=env, stdout=log, stderr=subprocess.STDOUT))

  results = []
  inconclusive = []
  driver_notes = []
  todo = list(range(nshards))
  for attempt in (0, 1):
    procs = [launch(k, attempt) for k in todo]
    todo = []
    deadline = time.time() + watchdog
    for k, out, log, p in procs:
      timed_out = False
      try:
        p.wait(timeout=max(1.0, deadline - time.time()))
      except subprocess.TimeoutExpired:
        p.kill()
        p.wait()
        timed_out = True
        inconclusive.append(f'shard {k} exceeded the wall-clock watchdog')
      log.close()
      if os.path.exists(out):
        with open(out) as fh:
          results.append(json.load(fh))
        continue
      if timed_out:
        continue
      tail = ''
      try:
        with open(log.name) as fh:
          tail = fh.read()[-1500:]
      except OSError:
        pass
      partial = out + '.partial'
      if p.returncode is not None and p.returncode < 0 and os.path.exists(partial):
        # died from a signal (native crash in a numerical library) after it had left a
        # checkpoint: what it observed until then is used, the crashing case is lost
        try:
          with open(partial) as fh:
            r = json.load(fh)
          results.append(r)
          driver_notes.append(f'shard {k} died from signal {-p.returncode} after {r.get("elapsed", 0):.0f} s; '
                              f'its last checkpoint ({r.get("evaluations")} evaluations) is used')
          continue
        except Exception:  # pylint: disable=broad-except
          pass
      if attempt == 0 and p.returncode is not None and p.returncode < 0:
        # the worker process died from a signal (native crash in a numerical library,
        # OOM kill): nothing it had observed was reported; the shard is run once more
        driver_notes.append(f'shard {k} died from signal {-p.returncode} and was run again')
        todo.append(k)
        continue
      inconclusive.append(f'shard {k} wrote no result (rc={p.returncode}): {tail}')
    if not todo:
      break
  # ---- merge -----------------------------------------------------------
  evaluations = sum(r['evaluations'] for r in results)
  distinct = set()
  counters = {}
  samples = []
  violations = []
  notes = list(driver_notes)
  for r in results:
    distinct.update(r['distinct'])
    common.merge_counters(counters, r['counters'])
    for s in r['samples']:
      if len(samples) < 6:
        samples.append(s)
    violations.extend(r['violations'])
    inconclusive.extend(r['inconclusive'])
    notes.extend(r['notes'])
  if hasattr(mod, 'post_merge'):
    # optional cross-shard oracle (e.g. global collision checks)
    # coverage floors decided in post_merge only make sense for full runs
    mod.post_merge(tier, counters, violations, [] if args.replay else inconclusive)
  if not args.replay:
    for key in getattr(mod, 'REQUIRED_COUNTERS', []):
      if not counters.get(key):
        inconclusive.append(f'deciding monitor never reached: counter {key}=0')
    floor = getattr(mod, 'MIN_DISTINCT', {}).get(tier, 2)
    if len(distinct) < floor:
      inconclusive.append(
          f'only {len(distinct)} distinct non-trivial cases (< floor {floor})')
  # ---- classify violations against known findings ------------------------
  known = common.load_known_findings()
  known_by_id = {(k['property'], k['id']): k for k in known.get('findings', [])}
  unknown = []
  known_hits = {}
  for v in violations:
    key = (prop, v['mech'])
    if key in known_by_id:
      known_hits.setdefault(v['mech'], []).append(v)
    else:
      unknown.append(v)
  replay_dir = os.path.join(VERIF, 'replays', prop)
  printed = []
  for mech, vs in sorted(known_hits.items()):
    k = known_by_id[(prop, mech)]
    printed.append(f'KNOWN-FINDING: property={prop} {mech}: {k["what"]} '
                   f'(observed {len(vs)}x this run)')
  replay_paths = []
  seen_mech = {}
  for v in unknown:
    seen_mech[v['mech']] = seen_mech.get(v['mech'], 0) + 1
    if seen_mech[v['mech']] > 3:
      continue
    os.makedirs(replay_dir, exist_ok=True)
    h = common.stable_hash(v)
    safe = ''.join(c if (c.isalnum() or c in '-_.') else '_' for c in v['mech'][:48])
    path = os.path.join(replay_dir, f'{safe}-{h}.json')
    with open(path, 'w') as fh:
      json.dump({'property': prop, 'tier': tier, 'seed': seed,
                 'mech': v['mech'], 'what': v['what'], 'case': v['case'],
                 'witness': v['witness']}, fh, indent=1)
    replay_paths.append((v, path))
    printed.append(f'VIOLATION property={prop} replay={os.path.relpath(path, VERIF)}'
                   f' mech={v["mech"]} :: {v["what"][:300]}')
  # ---- evidence ----------------------------------------------------------
  wall = time.time() - t0
  coverage = {
      'evaluations': int(evaluations),
      'distinct_nontrivial': len(distinct),
      'rule': getattr(mod, 'RULE', ''),
      'samples': samples if samples else [],
      'monitor_counters': counters,
      'shards': nshards,
      'known_findings_observed': {m: len(v) for m, v in known_hits.items()},
      'unlisted_violation_mechanisms': seen_mech,
      'inconclusive_reasons': inconclusive[:10],
      'notes': sorted(set(notes))[:20],
  }
  if hasattr(mod, 'extra_coverage'):
    coverage.update(mod.extra_coverage(tier, counters))
  evidence = {
      'property_id': prop, 'tier': tier, 'seed': int(seed),
      'level': getattr(mod, 'LEVEL', 'exploration'),
      'coverage': coverage,
      'assumptions': getattr(mod, 'ASSUMPTIONS', []),
      'wall_s': round(wall, 2),
      'violations': len(unknown),
  }
  scratch_tree = os.environ.get('VV_REPO') not in (None, '', '/repo')
  if scratch_tree:
    print(f'NOTE: checked tree is {os.environ["VV_REPO"]} (scratch copy): evidence file not written')
  if not args.replay and not scratch_tree:
    os.makedirs(os.path.join(VERIF, 'evidence'), exist_ok=True)
    with open(os.path.join(VERIF, 'evidence', f'{prop}.json'), 'w') as fh:
      json.dump(evidence, fh, indent=1, sort_keys=True)
  shutil.rmtree(tmp, ignore_errors=True)
  for line in printed:
    print(line)
  summary = (f'{prop} tier={tier} seed={seed} evaluations={evaluations} '
             f'distinct_nontrivial={len(distinct)} wall={wall:.1f}s')
  if unknown:
    print('RESULT VIOLATED ' + summary)
    return 1
  if inconclusive:
    for r in inconclusive[:5]:
      print(f'INCONCLUSIVE property={prop} reason={r[:1500]}')
    print('RESULT INCONCLUSIVE ' + summary)
    return 2
  print('RESULT HELD ' + summary + ' counters=' + json.dumps(
      {k: v for k, v in counters.items() if not isinstance(v, dict)},
      sort_keys=True)[:1500])
  return 0


def main():
  ap = argparse.ArgumentParser()
  ap.add_argument('property')
  ap.add_argument('--tier', default=os.environ.get('VERIF_TIER', 'quick'),
                  choices=['quick', 'thorough'])
  ap.add_argument('--seed', type=int,
                  default=int(os.environ.get('VERIF_SEED', '0') or 0))
  ap.add_argument('--replay')
  ap.add_argument('--worker', action='store_true')
  ap.add_argument('--shard', type=int, default=0)
  ap.add_argument('--nshards', type=int, default=1)
  ap.add_argument('--budget', type=float, default=100.0)
  ap.add_argument('--out')
  args = ap.parse_args()
  if args.worker:
    sys.exit(worker_main(args))
  sys.exit(driver_main(args))


if __name__ == '__main__':
  main()
