"""C09 helpers: JSON-able value descriptions, builders, canonical forms, diffing.

Everything the check generates is a plain JSON description (`desc`) from which
`build(kind, desc)` constructs the pyvizier object through the public
constructors / builders of the repository. `canon_*` read an object back through
its public accessors into plain data (never through the converters), so that
`diff(canon(x), canon(from_proto(to_proto(x))))` is an oracle independent of the
code under test.

Canonical leaves:
  numbers            -> python float when exactly representable, else int
  {'__us__': n}      -> an instant, integer microseconds since the epoch
                        (compared exactly: datetimes have microsecond resolution)
  {'__secs__': f}    -> a duration in seconds (compared to the microsecond)
"""
import datetime
import json
import math

EPOCH = datetime.datetime(1970, 1, 1, tzinfo=datetime.timezone.utc)
US = datetime.timedelta(microseconds=1)

_SPECIAL = {'inf': float('inf'), '-inf': float('-inf'), 'nan': float('nan')}

# generator bounds; the thorough tier widens them (see checks/c09.py)
CFG = {'max_params': 5, 'depths_hostile': [0, 0, 1, 1, 2, 3], 'depths_clean': [0, 0, 1, 1],
       'max_md': 5, 'max_measurements': 3}


def enc_float(v):
  """JSON-safe encoding of a possibly non-finite float."""
  if isinstance(v, float) and not math.isfinite(v):
    return 'nan' if v != v else ('inf' if v > 0 else '-inf')
  return v


def dec_float(v):
  if isinstance(v, str):
    return _SPECIAL[v]
  return v


# ---------------------------------------------------------------------------
# generators (rng -> desc)
# ---------------------------------------------------------------------------
PARAM_NAMES = ['x', 'lr', 'units', 'opt', 'k', 'model', 'é', '学習率', 'a b',
               'A.b', 'a:b', 'a/b', 'a\\b', 'p[0]', 'p[1]', 'q[10]', ':', '::',
               'naïve\t', '😀', 'line\nbreak', 'False', '0', ' ']
METRIC_NAMES = ['', 'obj', 'loss', 'acc', 'é', 'm:1', 'a/b', 'safe', 'x y', ':',
                '指標', '0', 'False', 'a\\']
CATEGORIES = ['a', 'b', 'c', 'dd', 'é', 'True', 'False', '1', 'x y', 'Z', '0.5',
              'none', '', ':', 'a:b', '0', 'α', 'a\\']
NS_COMPONENTS = ['', 'a', 'b', 'é', ':', 'a:b', '::', 'x\\y', '\\:', ':\\x',
                 'service', 'algo', ' ']
NS_HOSTILE = ['b\\', '\\', 'a:\\']      # component ending in a backslash
KEYS = ['', 'k', 'key', 'é', 'a:b', ':', 'PYTHIA_ENDPOINT', 'x y', 'k\\', '0']
STRINGS = ['', 'v', 'value', 'é', '0', 'False', ':', 'a:b', '\\', 'x\ny', '{"a": 1}',
           'ü' * 40]
ALGORITHMS = ['ALGORITHM_UNSPECIFIED', 'GP_UCB_PE', 'RANDOM_SEARCH', 'NSGA2',
              'GRID_SEARCH', 'QUASI_RANDOM_SEARCH', 'my.custom:Algo', '', 'é',
              'EAGLE_STRATEGY']
WORKERS = [None, None, '', 'w', 'worker-1', 'é', 'a:b', '0']
DESCRIPTIONS = [None, None, '', 'owners/o/studies/s/trials/1', 'é', 'note: x', '0']
CKPT = [None, '', '/tmp/ckpt', 'gs://b/é', ':']


def pick_name(rng, pool, used):
  for _ in range(50):
    n = rng.choice(pool)
    if rng.random() < 0.25:
      n = n + str(rng.randint(0, 9))
    if n not in used:
      used.add(n)
      return n
  n = 'n%d' % len(used)
  used.add(n)
  return n


def _needs_factory(p):
  if p['external'] is not None:
    return True
  k, sc = p['kind'], p['scale']
  if (k == 'CATEGORICAL' and sc) or (k == 'DOUBLE' and sc is None) \
      or (k == 'DISCRETE' and sc in (None, 'UNIFORM_DISCRETE')):
    return True    # only ParameterConfig.factory exposes these combinations
  return any(_needs_factory(c['param']) for c in p['children'])


def _set_via(p, via):
  p['via'] = via
  for c in p['children']:
    _set_via(c['param'], via)


def gen_param(rng, name, depth, max_depth, hostile, kinds=None, avoid=()):
  """One parameter description, possibly with children (conditional tree)."""
  kinds = kinds or ['DOUBLE', 'INTEGER', 'DISCRETE', 'CATEGORICAL', 'BOOL']
  kind = rng.choice(kinds)
  p = {'name': name, 'kind': kind, 'scale': None, 'default': None,
       'external': None, 'children': []}
  if kind == 'DOUBLE':
    cls = rng.choice(['unit', 'sym', 'neg', 'pos', 'tiny', 'huge', 'single', 'generic'])
    if cls == 'unit':
      lo, hi = 0.0, 1.0
    elif cls == 'sym':
      lo, hi = -rng.choice([1.0, 2.5, 100.0]), rng.choice([1.0, 3.5, 1e6])
    elif cls == 'neg':
      lo, hi = -rng.uniform(1, 100), -rng.uniform(0.001, 0.9)
    elif cls == 'pos':
      lo = 10 ** rng.uniform(-6, 2)
      hi = lo * 10 ** rng.uniform(0.1, 6)
    elif cls == 'tiny':
      lo = rng.uniform(-5, 5)
      hi = lo + 1e-9
    elif cls == 'huge':
      lo, hi = -1e300, 1e300
    elif cls == 'single':
      lo = hi = rng.choice([0.0, 1.5, -2.0])
    else:
      lo = rng.uniform(-50, 50)
      hi = lo + rng.uniform(0.01, 100)
    p['lo'], p['hi'] = float(lo), float(hi)
    p['scale'] = rng.choice([None, 'LINEAR', 'LOG', 'REVERSE_LOG'])
    if rng.random() < 0.5:
      cands = [lo, hi, (lo + hi) / 2]
      if hostile and lo <= 0.0 <= hi:
        cands += [0.0, 0.0, -0.0]
      p['default'] = float(rng.choice(cands))
      if not hostile and not p['default']:
        p['default'] = None
  elif kind == 'INTEGER':
    cls = rng.choice(['small', 'single', 'mid', 'neg', 'zero', 'big'])
    if cls == 'small':
      lo = rng.randint(-3, 3)
      hi = lo + rng.randint(1, 6)
    elif cls == 'single':
      lo = hi = rng.randint(-5, 5)
    elif cls == 'mid':
      lo = rng.randint(0, 5)
      hi = lo + rng.randint(11, 60)
    elif cls == 'neg':
      hi = -rng.randint(1, 5)
      lo = hi - rng.randint(1, 30)
    elif cls == 'zero':
      lo, hi = 0, rng.randint(0, 4)
    else:
      lo = rng.choice([1, -2 ** 40, 0])
      hi = rng.choice([2 ** 31, 2 ** 53 + 1, 2 ** 62])
    p['lo'], p['hi'] = int(lo), int(hi)
    p['scale'] = rng.choice([None, None, 'LINEAR', 'LOG', 'REVERSE_LOG'])
    if rng.random() < 0.5:
      cands = [lo, hi]
      if hostile and lo <= 0 <= hi:
        cands += [0, 0]
      p['default'] = int(rng.choice(cands))
      if not hostile and not p['default']:
        p['default'] = None
  elif kind == 'DISCRETE':
    n = rng.choice([1, 2, 3, 4, 5, 8])
    cls = rng.choice(['integral', 'frac', 'neg', 'pos', 'ints'])
    vals = set()
    while len(vals) < n:
      if cls == 'integral':
        vals.add(float(rng.randint(-4, 12)))
      elif cls == 'ints':
        vals.add(rng.randint(-4, 12))
      elif cls == 'frac':
        vals.add(round(rng.uniform(-5, 5), 3))
      elif cls == 'neg':
        vals.add(-round(rng.uniform(0.1, 50), 2))
      else:
        vals.add(round(10 ** rng.uniform(-3, 3), 6))
    vals = list(vals)
    rng.shuffle(vals)                 # unsorted on purpose
    p['values'] = vals
    p['scale'] = rng.choice([None, 'LINEAR', 'LOG', 'REVERSE_LOG', 'UNIFORM_DISCRETE'])
    if rng.random() < 0.5:
      d = rng.choice(vals)
      if hostile and 0 in vals:
        d = 0.0
      p['default'] = d
      if not hostile and not d:
        p['default'] = None
  elif kind == 'CATEGORICAL':
    n = rng.choice([1, 2, 3, 4, 6])
    vals = rng.sample(CATEGORIES, n)
    if not hostile:
      vals = [v for v in vals if v != ''] or ['a']
    p['values'] = vals
    if rng.random() < 0.3:
      p['scale'] = rng.choice(['LINEAR', 'LOG'])
    if rng.random() < 0.5:
      d = rng.choice(vals)
      if hostile and '' in vals:
        d = ''
      p['default'] = d
      if not hostile and not d:
        p['default'] = None
  else:  # BOOL: categorical 'False'/'True' with external type BOOLEAN
    p['values'] = rng.choice([['False', 'True'], ['False', 'True'], ['True'], ['False']])
    if rng.random() < 0.5:
      p['default'] = rng.choice(p['values'])
  if rng.random() < 0.3:
    p['external'] = rng.choice(['INTERNAL', 'BOOLEAN', 'INTEGER', 'FLOAT'])
  # ---- children --------------------------------------------------------
  if depth < max_depth and kind != 'DOUBLE' and rng.random() < (0.75 if depth == 0 else 0.6):
    if kind == 'INTEGER':
      if p['hi'] - p['lo'] > 100:
        # pyvizier refuses integer values that a float cannot hold
        feas = [v for v in (p['lo'], p['lo'] + 1, p['hi']) if abs(v) <= 2 ** 53]
      else:
        feas = list(range(p['lo'], p['hi'] + 1))
    else:
      feas = list(p['values'])
    used = set()
    for _ in range(rng.choice([1, 1, 2, 3])):
      k = rng.choice([1, 1, 2, 3])
      pv = rng.sample(feas, min(k, len(feas)))
      cname = pick_name(rng, PARAM_NAMES, set(avoid) | {name})
      # the same child name may re-appear under *disjoint* parent values
      key_ok = all((cname, json.dumps(v)) not in used for v in pv)
      if not key_ok:
        continue
      for v in pv:
        used.add((cname, json.dumps(v)))
      child = gen_param(rng, cname, depth + 1, max_depth, hostile,
                        avoid=tuple(avoid) + (name,))
      p['children'].append({'parent_values': pv, 'param': child})
  if depth == 0:
    _set_via(p, 'factory' if (_needs_factory(p) or rng.random() < 0.4) else 'builder')
  return p


def gen_space(rng, hostile, max_params=5, max_depth=None):
  if max_depth is None:
    max_depth = rng.choice(CFG['depths_hostile'] if hostile else CFG['depths_clean'])
  max_params = max(max_params, CFG['max_params']) if max_params >= 5 else max_params
  n = rng.choice([0, 1, 1, 2, 3, 4, max_params])
  used = set()
  return [gen_param(rng, pick_name(rng, PARAM_NAMES, used), 0, max_depth, hostile)
          for _ in range(n)]


def gen_metrics(rng):
  n = rng.choice([0, 1, 1, 2, 3, 4])
  used = set()
  out = []
  for _ in range(n):
    m = {'name': pick_name(rng, METRIC_NAMES, used),
         'goal': rng.choice(['MAXIMIZE', 'MINIMIZE']),
         'safety_threshold': None, 'min_safe_fraction': None}
    if rng.random() < 0.45:
      m['safety_threshold'] = rng.choice([0.0, -0.0, 1.0, -1.5, 1e-300, 1e300, 0.25])
      if rng.random() < 0.6:
        m['min_safe_fraction'] = rng.choice([0.0, 1.0, 0.5, 0.999999, 1e-12])
    out.append(m)
  return out


def gen_mdvalue(rng):
  r = rng.random()
  if r < 0.6:
    return {'s': rng.choice(STRINGS)}
  msg = rng.choice(['Duration', 'Int64Value', 'StringValue', 'KeyValue', 'Measurement', 'Empty'])
  args = {}
  if msg == 'Duration':
    args = {'seconds': rng.choice([0, 1, 60, -5]), 'nanos': rng.choice([0, 5, 999999999])}
    if args['seconds'] < 0:
      args['nanos'] = -args['nanos']
  elif msg == 'Int64Value':
    args = {'value': rng.choice([0, 1, -1, 2 ** 62])}
  elif msg == 'StringValue':
    args = {'value': rng.choice(STRINGS)}
  elif msg == 'KeyValue':
    args = {'key': rng.choice(KEYS), 'ns': rng.choice([':a', '', ':a:b']), 'value': rng.choice(STRINGS)}
  elif msg == 'Measurement':
    args = {'step_count': rng.choice([0, 7])}
  return {'msg': msg, 'args': args, 'packed': rng.random() < 0.5}


def gen_ns(rng, hostile):
  n = rng.choice([0, 0, 1, 1, 2, 3])
  pool = NS_COMPONENTS + (NS_HOSTILE if (hostile and rng.random() < 0.25) else [])
  return [rng.choice(pool) for _ in range(n)]


def gen_metadata(rng, hostile, max_items=5):
  if max_items >= 5:
    max_items = max(max_items, CFG['max_md'])
  n = rng.choice([0, 0, 1, 2, 3, max_items])
  seen = set()
  items = []
  for _ in range(n):
    ns = gen_ns(rng, hostile)
    key = rng.choice(KEYS)
    if ns == ['service'] and key == 'PYTHIA_ENDPOINT':
      continue   # reserved for StudyConfig.pythia_endpoint; generated separately
    k = json.dumps([ns, key])
    if k in seen:
      continue
    seen.add(k)
    items.append({'ns': ns, 'key': key, 'value': gen_mdvalue(rng)})
  return items


def gen_measurement(rng, hostile):
  n = rng.choice([0, 1, 1, 2, 3])
  used = set()
  metrics = []
  for _ in range(n):
    name = pick_name(rng, METRIC_NAMES, used)
    v = rng.choice([0.0, -0.0, 1.0, -1.0, 0.5, 1e-300, 1e300, 3, 0, True, False,
                    float('inf'), float('-inf'), float('nan'),
                    rng.uniform(-1e3, 1e3), 2 ** 53 + 1])
    std = rng.choice([None, None, 0.0, 0.1])
    metrics.append({'name': name, 'value': enc_float(v), 'std': std})
  if hostile:
    el = rng.choice([0, 0.0, 1.5, 0.3, 1e-6, 0.999999, 12345.678901, 1e9 + 0.25,
                     2.5e-7, 0.1 + 0.2, 7, rng.uniform(0, 1e5), 86400.000001])
  else:
    el = rng.choice([0, 0.0, 1, 3600.0, 7, 1e9, float(rng.randint(0, 10 ** 6))])
  steps = rng.choice([0, 0, 1, 10, 10 ** 12, 2 ** 62, rng.randint(0, 10 ** 6), 5.0, True])
  m = {'metrics': metrics, 'elapsed': el, 'steps': steps}
  if rng.random() < 0.2:
    m['checkpoint_path'] = rng.choice(['/tmp/c', 'é'])
  return m


def gen_pvalues(rng):
  n = rng.choice([0, 1, 2, 3, 5])
  used = set()
  out = []
  for _ in range(n):
    name = pick_name(rng, PARAM_NAMES, used)
    v = rng.choice([0, 0.0, -0.0, '', False, True, 1, -7, 2 ** 53, -2 ** 53, 0.1, 1e-300,
                    1e300, -2.5, 'a', 'é', 'True', 'False', '0', 'a:b', ' ',
                    rng.uniform(-1e6, 1e6), rng.randint(-10 ** 9, 10 ** 9),
                    float('inf'), float('-inf'), float('nan')])
    out.append({'name': name, 'value': {'f': enc_float(v)} if (
        isinstance(v, float) and not math.isfinite(v)) else v})
  return out


def gen_time(rng, hostile):
  base = rng.choice([1700000000, 1, 0, 4102444800, 946684800, 1234567890,
                     rng.randint(10 ** 8, 2 * 10 ** 9)])
  if hostile and rng.random() < 0.15:
    base = -rng.choice([1, 86400, 10 ** 9])       # before 1970
  frac = rng.choice([0, 1, 999999, 500000, 123456, 654321, rng.randint(0, 999999)])
  return {'us': base * 10 ** 6 + frac,
          'tz': rng.choice([None, 'utc', '+05:30', '-08:00'])}


def gen_trial(rng, hostile):
  state = rng.choice(['REQUESTED', 'ACTIVE', 'STOPPING', 'SUCCEEDED', 'INFEASIBLE',
                      'INFEASIBLE_WITH_MEASUREMENT'])
  t = {'id': rng.choice([0, 1, 2, 17, 2 ** 31, 2 ** 40, rng.randint(0, 10 ** 6)]),
       'state': state,
       'description': rng.choice(DESCRIPTIONS),
       'assigned_worker': rng.choice(WORKERS),
       'parameters': gen_pvalues(rng),
       'metadata': gen_metadata(rng, hostile, 4),
       'measurements': [gen_measurement(rng, hostile)
                        for _ in range(rng.choice([0, 0, 1, 2, CFG['max_measurements']]))],
       'creation_time': gen_time(rng, hostile) if rng.random() < 0.9 else None,
       'completion_time': None, 'final_measurement': None,
       'infeasibility_reason': None, 'stopping_reason': None,
       'related_links': {'doc': 'http://x'} if rng.random() < 0.15 else {}}
  if state == 'STOPPING':
    t['stopping_reason'] = rng.choice(['', 'too slow', 'é'])
  if state in ('SUCCEEDED', 'INFEASIBLE_WITH_MEASUREMENT'):
    t['final_measurement'] = gen_measurement(rng, hostile)
  if state.startswith('INFEASIBLE'):
    t['infeasibility_reason'] = rng.choice(['', 'bad', 'é: diverged', 'nan loss'])
  if state in ('SUCCEEDED', 'INFEASIBLE', 'INFEASIBLE_WITH_MEASUREMENT'):
    if t['creation_time'] is not None and rng.random() < 0.8:
      if state == 'SUCCEEDED' or hostile:
        ct = dict(t['creation_time'])
        ct['us'] += rng.choice([0, 1, 10 ** 6, 3600 * 10 ** 6 + 530865, rng.randint(0, 10 ** 12)])
        t['completion_time'] = ct
  return t


def gen_suggestion(rng, hostile):
  return {'parameters': gen_pvalues(rng), 'metadata': gen_metadata(rng, hostile, 3)}


def gen_delta(rng, hostile):
  d = {'on_study': gen_metadata(rng, hostile, 4), 'on_trials': []}
  used = set()
  for _ in range(rng.choice([0, 1, 2, 3])):
    tid = rng.choice([0, 1, 2, 5, 2 ** 31, rng.randint(0, 1000)])
    if tid in used:
      continue
    used.add(tid)
    d['on_trials'].append({'id': tid, 'metadata': gen_metadata(rng, hostile, 3)})
  return d


def gen_problem(rng, hostile):
  return {'space': gen_space(rng, hostile, 4), 'metrics': gen_metrics(rng),
          'metadata': gen_metadata(rng, hostile, 3)}


def gen_study_config(rng, hostile):
  d = gen_problem(rng, hostile)
  d['algorithm'] = rng.choice(ALGORITHMS)
  d['algorithm_as_enum'] = d['algorithm'] in ('GP_UCB_PE', 'RANDOM_SEARCH', 'NSGA2') and rng.random() < 0.5
  d['noise'] = rng.choice(['OBSERVATION_NOISE_UNSPECIFIED', 'LOW', 'HIGH'])
  d['stopping'] = rng.random() < 0.4
  d['endpoint'] = rng.choice([None, None, 'localhost:8888', '', 'é:1'])
  d['endpoint_in_metadata'] = d['endpoint'] is not None and rng.random() < 0.3
  return d


def gen_descriptor(rng, hostile):
  return {'config': gen_problem(rng, hostile),
          'guid': rng.choice(['', 'owners/o/studies/s', 'é', 'g:1']),
          'max_trial_id': rng.choice([0, 0, 1, 17, 2 ** 31 - 1])}


def gen_suggest_request(rng, hostile):
  return {'descriptor': gen_descriptor(rng, hostile),
          'count': rng.choice([1, 1, 2, 10, 2 ** 31 - 1]),
          'checkpoint_dir': rng.choice(CKPT)}


def gen_suggest_decision(rng, hostile):
  return {'suggestions': [gen_suggestion(rng, hostile) for _ in range(rng.choice([0, 1, 2, 3]))],
          'metadata': gen_delta(rng, hostile)}


def gen_earlystop_request(rng, hostile):
  ids = rng.choice([None, [], [1], [0, 3, 2 ** 31 - 1], [5, 4, 4]])
  return {'descriptor': gen_descriptor(rng, hostile), 'trial_ids': ids,
          'checkpoint_dir': rng.choice(CKPT)}


def gen_earlystop_decisions(rng, hostile):
  ds = []
  for _ in range(rng.choice([0, 1, 2, 3])):
    d = {'id': rng.choice([1, 2, 7, 2 ** 31 - 1]), 'reason': rng.choice(['r', 'é', ':', '0', ' ']),
         'should_stop': rng.random() < 0.5, 'predicted': None}
    if rng.random() < (0.6 if hostile else 1.0):
      d['predicted'] = gen_measurement(rng, hostile)
    ds.append(d)
  return {'decisions': ds, 'metadata': gen_delta(rng, hostile)}


# ---------------------------------------------------------------------------
# edit scripts for *received* objects (from_proto result, then changed through the
# public API, then converted again). Every op is abstract ('pick' in [0,1) selects
# among whatever the received object holds), so a script is applicable to any value.
# ---------------------------------------------------------------------------
EDIT_OPS_PROBLEM = (['md_delete'] * 4 + ['md_clear_ns'] * 2 + ['md_replace'] + ['md_change'] * 2
                    + ['md_add'] * 2 + ['param_remove'] * 2 + ['param_add'] + ['param_add_child']
                    + ['metric_remove'] * 2 + ['metric_add'] + ['metric_flip'])
EDIT_OPS_STUDY = EDIT_OPS_PROBLEM + ['algorithm', 'algorithm', 'noise', 'stopping', 'stopping',
                                     'stopping', 'endpoint', 'endpoint']


def _simple_child(rng, name, hostile):
  """A builder-compatible, childless parameter description."""
  for _ in range(20):
    p = gen_param(rng, name, 1, 1, hostile)
    if not _needs_factory(p):
      break
  else:
    p = {'name': name, 'kind': 'DOUBLE', 'scale': 'LINEAR', 'default': None, 'external': None,
         'children': [], 'lo': 0.0, 'hi': 1.0}
  _set_via(p, 'builder')
  return p


def gen_edits(rng, hostile, study):
  """One round of 1..4 edit ops."""
  ops = []
  for _ in range(rng.choice([1, 1, 2, 3, 4])):
    op = rng.choice(EDIT_OPS_STUDY if study else EDIT_OPS_PROBLEM)
    e = {'op': op, 'pick': rng.random()}
    if op == 'md_delete':
      e['how'] = rng.choice(['del', 'pop'])
    elif op == 'md_clear_ns':
      e['how'] = rng.choice(['clear', 'del-each'])
    elif op == 'md_replace':
      e['parity'] = rng.choice([0, 1, 2])            # 2: replace by an empty Metadata
    elif op == 'md_change':
      e['value'] = gen_mdvalue(rng)
    elif op == 'md_add':
      e.update(ns=[rng.choice(NS_COMPONENTS) for _ in range(rng.choice([0, 0, 1, 2]))],
               key=rng.choice(KEYS), value=gen_mdvalue(rng))
    elif op == 'param_add':
      # names of added parameters end in '+e': they cannot collide with generated ones
      e['param'] = gen_param(rng, rng.choice(PARAM_NAMES) + '+e', 0, rng.choice([0, 0, 1]), hostile)
    elif op == 'param_add_child':
      e['param'] = _simple_child(rng, rng.choice(PARAM_NAMES) + '+c', hostile)
    elif op == 'metric_add':
      e['metric'] = dict((gen_metrics(rng) or [{'goal': 'MINIMIZE', 'safety_threshold': None,
                                               'min_safe_fraction': None}])[0],
                         name=rng.choice(METRIC_NAMES) + '+e')
    elif op == 'algorithm':
      e['value'] = rng.choice(ALGORITHMS)
    elif op == 'noise':
      e['value'] = rng.choice(['OBSERVATION_NOISE_UNSPECIFIED', 'LOW', 'HIGH'])
    elif op == 'stopping':
      e['on'] = rng.random() < 0.35
    elif op == 'endpoint':
      e['value'] = rng.choice([None, 'localhost:8888', 'other:1', '', 'é:1'])
    ops.append(e)
  return ops


def gen_edited(rng, hostile, study=True):
  base = gen_study_config(rng, hostile) if study else gen_problem(rng, hostile)
  if study and not base['stopping'] and rng.random() < 0.3:
    base['stopping'] = True
  return {'base': base,
          'rounds': [gen_edits(rng, hostile, study) for _ in range(rng.choice([1, 1, 1, 2]))]}


def _pick(seq, frac):
  seq = list(seq)
  return seq[min(len(seq) - 1, int(frac * len(seq)))] if seq else None


def _md_items(md):
  """[(ns tuple, key)] of every item, in a deterministic order."""
  out = []
  for ns in md.namespaces():
    for k in md.abs_ns(ns):
      out.append((tuple(ns), k))
  return sorted(out)


def _mdkey(ns, key):
  return json.dumps([list(ns), key], ensure_ascii=False)


def _reserved(ns, key):
  from vizier._src.service import constants
  return list(ns) == [constants.PYTHIA_ENDPOINT_NAMESPACE] and key == constants.PYTHIA_ENDPOINT_KEY


def apply_edits(obj, ops):
  """Applies one round of edit ops to a StudyConfig / ProblemStatement in place.

  Only public mutators are used: Metadata item assignment / del / pop / clear, assignment of
  the metadata / metric_information / algorithm / observation_noise /
  automated_stopping_config / pythia_endpoint attributes, SearchSpace.pop / add and the
  add_*_param / select builders. Returns the list of effects that really happened:
  [effect name, subject] (an op without a target in this object is a no-op).
  """
  vz = _vz()
  effects = []
  for e in ops:
    op, frac = e['op'], e['pick']
    md = obj.metadata
    if op == 'md_delete':
      it = _pick([i for i in _md_items(md)], frac)
      if it is None:
        continue
      if e['how'] == 'pop':
        md.abs_ns(it[0]).pop(it[1])
      else:
        del md.abs_ns(it[0])[it[1]]
      effects.append(['metadata-entry-deleted', _mdkey(*it)])
    elif op == 'md_clear_ns':
      items = _md_items(md)
      ns = _pick(sorted({i[0] for i in items}), frac)
      if ns is None:
        continue
      view = md.abs_ns(ns)
      keys = list(view)
      if e['how'] == 'clear':
        view.clear()
      else:
        for k in keys:
          del view[k]
      effects.append(['metadata-namespace-emptied', json.dumps(list(ns), ensure_ascii=False)])
      effects.extend(['metadata-entry-deleted', _mdkey(ns, k)] for k in keys)
    elif op == 'md_replace':
      items = _md_items(md)
      if not items:
        continue
      new = vz.Metadata()
      for j, (ns, k) in enumerate(items):
        if e['parity'] != 2 and j % 2 == e['parity']:
          new.abs_ns(ns)[k] = md.abs_ns(ns)[k]
        else:
          effects.append(['metadata-entry-deleted', _mdkey(ns, k)])
      obj.metadata = new
      effects.append(['metadata-object-replaced', ''])
    elif op == 'md_change':
      it = _pick([i for i in _md_items(md) if not _reserved(*i)], frac)
      if it is None:
        continue
      md.abs_ns(it[0])[it[1]] = build_mdvalue(e['value'])
      effects.append(['metadata-entry-changed', _mdkey(*it)])
    elif op == 'md_add':
      if _reserved(e['ns'], e['key']):
        continue
      existed = e['key'] in md.abs_ns(e['ns'])
      md.abs_ns(e['ns'])[e['key']] = build_mdvalue(e['value'])
      effects.append(['metadata-entry-changed' if existed else 'metadata-entry-added',
                      _mdkey(e['ns'], e['key'])])
    elif op == 'param_remove':
      name = _pick(sorted(p.name for p in obj.search_space.parameters), frac)
      if name is None:
        continue
      obj.search_space.pop(name)
      effects.append(['parameter-removed', name])
    elif op == 'param_add':
      p = e['param']
      if p['name'] in obj.search_space.parameter_names:
        continue
      try:
        if p.get('via') == 'builder':
          _add_via_builder(obj.search_space.root, p)
        else:
          obj.search_space.add(build_param_config(p))
      except (ValueError, TypeError):
        effects.append(['edit-refused', 'param_add'])
        continue
      effects.append(['parameter-added', p['name']])
    elif op == 'param_add_child':
      parents = sorted(p.name for p in obj.search_space.parameters
                       if p.type.name in ('CATEGORICAL', 'DISCRETE', 'INTEGER'))
      name = _pick(parents, frac)
      if name is None:
        continue
      parent = obj.search_space.get(name)
      if parent.type.name == 'INTEGER':
        value = int(parent.bounds[0])
        if abs(value) > 2 ** 53:
          continue
      else:
        value = list(parent.feasible_values)[0]
      try:
        sub = obj.search_space.root.select(name, [value])
        _add_via_builder(sub, e['param'])
      except (ValueError, TypeError, KeyError):
        effects.append(['edit-refused', 'param_add_child'])
        continue
      effects.append(['child-parameter-added', name])
    elif op == 'metric_remove':
      name = _pick(sorted(m.name for m in obj.metric_information), frac)
      if name is None:
        continue
      obj.metric_information = [m for m in obj.metric_information if m.name != name]
      effects.append(['metric-removed', name])
    elif op == 'metric_add':
      if any(m.name == e['metric']['name'] for m in obj.metric_information):
        continue
      obj.metric_information.append(build_metric(e['metric']))
      effects.append(['metric-added', e['metric']['name']])
    elif op == 'metric_flip':
      name = _pick(sorted(m.name for m in obj.metric_information), frac)
      if name is None:
        continue
      obj.metric_information = [m.flip_goal() if m.name == name else m
                                for m in obj.metric_information]
      effects.append(['metric-goal-flipped', name])
    elif op == 'algorithm':
      if obj.algorithm != e['value']:
        obj.algorithm = e['value']
        effects.append(['algorithm-changed', 'to-default' if e['value'] in (
            '', 'ALGORITHM_UNSPECIFIED') else 'to-other'])
    elif op == 'noise':
      if obj.observation_noise.name != e['value']:
        obj.observation_noise = getattr(vz.ObservationNoise, e['value'])
        effects.append(['noise-changed', 'to-default' if e['value'].endswith('UNSPECIFIED')
                        else 'to-other'])
    elif op == 'stopping':
      if e['on'] and obj.automated_stopping_config is None:
        obj.automated_stopping_config = vz.AutomatedStoppingConfig.default_stopping_spec()
        effects.append(['stopping-config-set', ''])
      elif not e['on'] and obj.automated_stopping_config is not None:
        obj.automated_stopping_config = None
        effects.append(['stopping-config-cleared', ''])
    elif op == 'endpoint':
      if obj.pythia_endpoint != e['value']:
        effects.append(['endpoint-cleared' if e['value'] is None else 'endpoint-changed', ''])
        obj.pythia_endpoint = e['value']
    else:
      raise ValueError(op)
  return effects


GENERATORS = {
    'ParameterConfig': lambda rng, h: gen_param(
        rng, pick_name(rng, PARAM_NAMES, set()), 0,
        rng.choice(CFG['depths_hostile'] if h else CFG['depths_clean']), h),
    'MetricInformation': lambda rng, h: (gen_metrics(rng) or [{'name': '', 'goal': 'MINIMIZE',
                                                               'safety_threshold': None,
                                                               'min_safe_fraction': None}])[0],
    'StudyConfig': gen_study_config,
    'ProblemStatement': gen_problem,
    'Measurement': gen_measurement,
    'Trial': gen_trial,
    'TrialSuggestion': gen_suggestion,
    'MetadataDelta': gen_delta,
    'SuggestRequest': gen_suggest_request,
    'SuggestDecision': gen_suggest_decision,
    'EarlyStopRequest': gen_earlystop_request,
    'EarlyStopDecisions': gen_earlystop_decisions,
}


# ---------------------------------------------------------------------------
# builders (desc -> pyvizier object), public API of the repository only
# ---------------------------------------------------------------------------
def _vz():
  from vizier.service import pyvizier as vz
  return vz


def build_param_config(p):
  """ParameterConfig.factory route (children passed as (values, config))."""
  vz = _vz()
  kw = {}
  if p['kind'] == 'DOUBLE':
    kw['bounds'] = (float(p['lo']), float(p['hi']))
  elif p['kind'] == 'INTEGER':
    kw['bounds'] = (int(p['lo']), int(p['hi']))
  elif p['kind'] in ('DISCRETE', 'CATEGORICAL', 'BOOL'):
    kw['feasible_values'] = list(p['values'])
  if p.get('scale'):
    kw['scale_type'] = getattr(vz.ScaleType, p['scale'])
  if p.get('default') is not None:
    kw['default_value'] = p['default']
  ext = p.get('external')
  if ext is None and p['kind'] == 'BOOL':
    ext = 'BOOLEAN'
  if ext is not None:
    kw['external_type'] = getattr(vz.ExternalType, ext)
  if p.get('children'):
    kw['children'] = [(list(c['parent_values']), build_param_config(c['param']))
                      for c in p['children']]
  return vz.ParameterConfig.factory(p['name'], **kw)


def _add_via_builder(selector, p):
  """SearchSpaceSelector.add_*_param route, children through select()."""
  vz = _vz()
  kw = {}
  if p.get('default') is not None:
    kw['default_value'] = p['default']
  st = getattr(vz.ScaleType, p['scale']) if p.get('scale') else None
  if p['kind'] == 'DOUBLE':
    selector.add_float_param(p['name'], p['lo'], p['hi'], scale_type=st, **kw)
  elif p['kind'] == 'INTEGER':
    selector.add_int_param(p['name'], p['lo'], p['hi'], scale_type=st, **kw)
  elif p['kind'] == 'DISCRETE':
    selector.add_discrete_param(p['name'], list(p['values']), scale_type=st, **kw)
  elif p['kind'] == 'CATEGORICAL':
    selector.add_categorical_param(p['name'], list(p['values']), scale_type=st, **kw)
  elif p['kind'] == 'BOOL':
    if 'default_value' in kw:
      kw['default_value'] = (kw['default_value'] == 'True')
    selector.add_bool_param(p['name'], [v == 'True' for v in p['values']], **kw)
  else:
    raise ValueError(p['kind'])
  for c in p.get('children', []):
    sub = selector.select(p['name'], list(c['parent_values']))
    _add_via_builder(sub, c['param'])


def build_space(desc):
  vz = _vz()
  space = vz.SearchSpace()
  for p in desc:
    if p.get('via') == 'builder':
      _add_via_builder(space.root, p)
    else:
      space.add(build_param_config(p))
  return space


def build_metric(m):
  vz = _vz()
  kw = {}
  if m.get('safety_threshold') is not None:
    kw['safety_threshold'] = float(m['safety_threshold'])
  if m.get('min_safe_fraction') is not None:
    kw['desired_min_safe_trials_fraction'] = float(m['min_safe_fraction'])
  return vz.MetricInformation(name=m['name'], goal=getattr(vz.ObjectiveMetricGoal, m['goal']), **kw)


def build_mdvalue(v):
  if 's' in v:
    return v['s']
  from google.protobuf import any_pb2, duration_pb2, wrappers_pb2, empty_pb2
  from vizier._src.service import key_value_pb2, study_pb2
  cls = {'Duration': duration_pb2.Duration, 'Int64Value': wrappers_pb2.Int64Value,
         'StringValue': wrappers_pb2.StringValue, 'KeyValue': key_value_pb2.KeyValue,
         'Measurement': study_pb2.Measurement, 'Empty': empty_pb2.Empty}[v['msg']]
  msg = cls(**v['args'])
  if v.get('packed'):
    a = any_pb2.Any()
    a.Pack(msg)
    return a
  return msg


def build_metadata(items):
  vz = _vz()
  md = vz.Metadata()
  for it in items:
    md.abs_ns(list(it['ns']))[it['key']] = build_mdvalue(it['value'])
  return md


def build_measurement(m):
  vz = _vz()
  metrics = {}
  for x in m['metrics']:
    v = dec_float(x['value'])
    if x.get('std') is not None:
      metrics[x['name']] = vz.Metric(value=v, std=x['std'])
    else:
      metrics[x['name']] = v
  kw = {}
  if m.get('checkpoint_path'):
    kw['checkpoint_path'] = m['checkpoint_path']
  return vz.Measurement(metrics=metrics, elapsed_secs=m['elapsed'], steps=m['steps'], **kw)


def build_time(t):
  if t is None:
    return None
  dt = EPOCH + t['us'] * US
  tz = t.get('tz')
  if tz is None:
    return dt.astimezone().replace(tzinfo=None)          # naive local time
  if tz == 'utc':
    return dt
  sign = 1 if tz[0] == '+' else -1
  hh, mm = tz[1:].split(':')
  return dt.astimezone(datetime.timezone(sign * datetime.timedelta(hours=int(hh), minutes=int(mm))))


def build_pvalues(ps):
  return {p['name']: (dec_float(p['value']['f']) if isinstance(p['value'], dict)
                      else p['value']) for p in ps}


def build_trial(t):
  vz = _vz()
  kw = {}
  if t['creation_time'] is not None:
    kw['creation_time'] = build_time(t['creation_time'])
  else:
    kw['creation_time'] = None
  if t['completion_time'] is not None:
    kw['completion_time'] = build_time(t['completion_time'])
  return vz.Trial(
      id=t['id'], parameters=build_pvalues(t['parameters']),
      metadata=build_metadata(t['metadata']),
      description=t['description'], assigned_worker=t['assigned_worker'],
      is_requested=t['state'] == 'REQUESTED',
      stopping_reason=t['stopping_reason'],
      infeasibility_reason=t['infeasibility_reason'],
      final_measurement=(build_measurement(t['final_measurement'])
                         if t['final_measurement'] is not None else None),
      measurements=[build_measurement(m) for m in t['measurements']],
      related_links=dict(t.get('related_links') or {}),
      **kw)


def build_suggestion(s):
  vz = _vz()
  return vz.TrialSuggestion(parameters=build_pvalues(s['parameters']),
                            metadata=build_metadata(s['metadata']))


def build_delta(d):
  vz = _vz()
  out = vz.MetadataDelta(on_study=build_metadata(d['on_study']))
  for e in d['on_trials']:
    md = build_metadata(e['metadata'])
    tgt = out.on_trials[e['id']]
    for ns in md.namespaces():
      for k, v in md.abs_ns(ns).items():
        tgt.abs_ns(ns)[k] = v
  return out


def build_problem(d):
  vz = _vz()
  return vz.ProblemStatement(search_space=build_space(d['space']),
                             metric_information=[build_metric(m) for m in d['metrics']],
                             metadata=build_metadata(d['metadata']))


def build_study_config(d):
  vz = _vz()
  from vizier._src.service import constants
  md = build_metadata(d['metadata'])
  kw = {}
  if d.get('endpoint') is not None:
    if d.get('endpoint_in_metadata'):
      md.ns(constants.PYTHIA_ENDPOINT_NAMESPACE)[constants.PYTHIA_ENDPOINT_KEY] = d['endpoint']
    else:
      kw['pythia_endpoint'] = d['endpoint']
  if d.get('stopping'):
    kw['automated_stopping_config'] = vz.AutomatedStoppingConfig.default_stopping_spec()
  alg = d['algorithm']
  if d.get('algorithm_as_enum'):
    alg = getattr(vz.Algorithm, alg)
  return vz.StudyConfig(search_space=build_space(d['space']),
                        metric_information=[build_metric(m) for m in d['metrics']],
                        metadata=md, algorithm=alg,
                        observation_noise=getattr(vz.ObservationNoise, d['noise']), **kw)


def build_descriptor(d):
  vz = _vz()
  return vz.StudyDescriptor(config=build_problem(d['config']), guid=d['guid'],
                            max_trial_id=d['max_trial_id'])


def build_suggest_request(d):
  from vizier._src.pythia import policy
  return policy.SuggestRequest(study_descriptor=build_descriptor(d['descriptor']),
                               count=d['count'], checkpoint_dir=d['checkpoint_dir'])


def build_suggest_decision(d):
  from vizier._src.pythia import policy
  return policy.SuggestDecision(suggestions=[build_suggestion(s) for s in d['suggestions']],
                                metadata=build_delta(d['metadata']))


def build_earlystop_request(d):
  from vizier._src.pythia import policy
  return policy.EarlyStopRequest(study_descriptor=build_descriptor(d['descriptor']),
                                 trial_ids=d['trial_ids'], checkpoint_dir=d['checkpoint_dir'])


def build_earlystop_decisions(d):
  from vizier._src.pythia import policy
  ds = []
  for e in d['decisions']:
    ds.append(policy.EarlyStopDecision(
        id=e['id'], reason=e['reason'], should_stop=e['should_stop'],
        predicted_final_measurement=(build_measurement(e['predicted'])
                                     if e['predicted'] is not None else None)))
  return policy.EarlyStopDecisions(decisions=ds, metadata=build_delta(d['metadata']))


BUILDERS = {
    'ParameterConfig': build_param_config,
    'MetricInformation': build_metric,
    'StudyConfig': build_study_config,
    'ProblemStatement': build_problem,
    'Measurement': build_measurement,
    'Trial': build_trial,
    'TrialSuggestion': build_suggestion,
    'MetadataDelta': build_delta,
    'SuggestRequest': build_suggest_request,
    'SuggestDecision': build_suggest_decision,
    'EarlyStopRequest': build_earlystop_request,
    'EarlyStopDecisions': build_earlystop_decisions,
}


def converters():
  """kind -> (to_proto, from_proto) of the repository."""
  from vizier._src.pyvizier.oss import proto_converters as pc
  vz = _vz()
  return {
      'ParameterConfig': (pc.ParameterConfigConverter.to_proto, pc.ParameterConfigConverter.from_proto),
      'MetricInformation': (pc.MetricInformationConverter.to_proto, pc.MetricInformationConverter.from_proto),
      'StudyConfig': (lambda x: x.to_proto(), vz.StudyConfig.from_proto),
      'ProblemStatement': (pc.ProblemStatementConverter.to_proto, pc.ProblemStatementConverter.from_proto),
      'Measurement': (pc.MeasurementConverter.to_proto, pc.MeasurementConverter.from_proto),
      'Trial': (pc.TrialConverter.to_proto, pc.TrialConverter.from_proto),
      'TrialSuggestion': (pc.TrialSuggestionConverter.to_proto, pc.TrialSuggestionConverter.from_proto),
      'MetadataDelta': (pc.MetadataDeltaConverter.to_protos, pc.MetadataDeltaConverter.from_protos),
      'SuggestRequest': (pc.SuggestConverter.to_request_proto, pc.SuggestConverter.from_request_proto),
      'SuggestDecision': (pc.SuggestConverter.to_decision_proto, pc.SuggestConverter.from_decision_proto),
      'EarlyStopRequest': (pc.EarlyStopConverter.to_request_proto, pc.EarlyStopConverter.from_request_proto),
      'EarlyStopDecisions': (pc.EarlyStopConverter.to_decisions_proto, pc.EarlyStopConverter.from_decisions_proto),
  }


# ---------------------------------------------------------------------------
# canonical forms (public accessors only; never the converters)
# ---------------------------------------------------------------------------
def num(v):
  """Value-canonical number: python type may change on the wire, value may not."""
  if isinstance(v, bool):
    return 1.0 if v else 0.0
  if isinstance(v, int):
    f = float(v) if abs(v) < 2 ** 1023 else None
    return f if (f is not None and int(f) == v) else v
  return float(v)


def pvalue(v):
  """Canonical parameter value (True -> 1.0 and 3 -> 3.0 are legitimate)."""
  if isinstance(v, str):
    return ['s', v]
  return ['n', num(v)]


def canon_pc(pc):
  t = pc.type.name
  out = {'name': pc.name, 'type': t, 'bounds': None, 'feasible': None}
  if t in ('DOUBLE', 'INTEGER'):
    out['bounds'] = [num(pc.bounds[0]), num(pc.bounds[1])]
  elif t == 'DISCRETE':
    out['feasible'] = [num(v) for v in pc.feasible_values]
  elif t == 'CATEGORICAL':
    out['feasible'] = list(pc.feasible_values)
  st = pc.scale_type
  # UNIFORM_DISCRETE has no wire representation (StudySpec.ParameterSpec.ScaleType
  # has no such value and to_proto skips it explicitly): equivalent to "unset".
  out['scale'] = None if (st is None or st.name == 'UNIFORM_DISCRETE') else st.name
  d = pc.default_value
  out['default'] = None if d is None else (['s', d] if isinstance(d, str) else ['n', num(d)])
  out['external'] = pc.external_type.name if pc.external_type is not None else 'INTERNAL'
  ch = {}
  for value, sub in pc.subspaces():
    if sub.parameters:
      ch[json.dumps(pvalue(value), ensure_ascii=False)] = canon_space(sub)
  out['@children'] = ch
  return out


def canon_space(space):
  return {p.name: canon_pc(p) for p in space.parameters}


def canon_metric(m):
  return {'name': m.name, 'goal': m.goal.name,
          'safety_threshold': None if m.safety_threshold is None else num(m.safety_threshold),
          'min_safe_fraction': (None if m.desired_min_safe_trials_fraction is None
                                else num(m.desired_min_safe_trials_fraction))}


def canon_metrics(mc):
  # name-keyed: StudyConfig.from_proto sorts metrics by name, order is not part
  # of the equality the property demands.
  return {m.name: canon_metric(m) for m in mc}


def canon_mdvalue(v):
  """A single string leaf: 's:<text>' or 'any:<type url>:<hex of the payload>'."""
  if isinstance(v, str):
    return 's:' + v
  from google.protobuf import any_pb2
  if not isinstance(v, any_pb2.Any):
    a = any_pb2.Any()
    a.Pack(v)
    v = a
  return 'any:%s:%s' % (v.type_url, v.value.hex())


def canon_metadata(md):
  out = {}
  for ns in md.namespaces():
    for k, v in md.abs_ns(ns).items():
      out[json.dumps([list(ns), k], ensure_ascii=False)] = canon_mdvalue(v)
  return out


def canon_measurement(m):
  return {'metrics': {k: float(v.value) for k, v in m.metrics.items()},
          'elapsed': {'__secs__': float(m.elapsed_secs)},
          'steps': num(m.steps)}
  # masked: Metric.std, checkpoint_path (documented as not transmitted)


def canon_time(dt):
  if dt is None:
    return None
  if dt.tzinfo is None:
    dt = dt.astimezone()
  d = dt - EPOCH
  return {'__us__': (d.days * 86400 + d.seconds) * 10 ** 6 + d.microseconds}


def unset(s):
  """None and '' are the same 'unset' value of a presence-less proto3 string."""
  return '' if s is None else s


def canon_trial(t):
  return {'id': t.id,
          'description': unset(t.description),
          'assigned_worker': unset(t.assigned_worker),
          'status': t.status.name,
          'is_requested': bool(t.is_requested),
          'infeasible': bool(t.infeasible),
          'infeasibility_reason': t.infeasibility_reason,
          'stopping': t.stopping_reason is not None,        # text is masked
          'parameters': {k: pvalue(v.value) for k, v in t.parameters.items()},
          'final_measurement': (None if t.final_measurement is None
                                else canon_measurement(t.final_measurement)),
          'measurements': [canon_measurement(m) for m in t.measurements],
          'creation_time': canon_time(t.creation_time),
          'completion_time': canon_time(t.completion_time),
          'metadata': canon_metadata(t.metadata)}
  # masked: related_links, stopping-reason text


def canon_suggestion(s):
  return {'parameters': {k: pvalue(v.value) for k, v in s.parameters.items()},
          'metadata': canon_metadata(s.metadata)}


def canon_delta(d):
  trials = {}
  for tid, md in d.on_trials.items():
    c = canon_metadata(md)
    if c:                              # an empty per-trial entry carries nothing
      trials[str(int(tid))] = c
  return {'on_study': canon_metadata(d.on_study), 'on_trials': trials}


def canon_problem(p):
  return {'space': canon_space(p.search_space),
          'metrics': canon_metrics(p.metric_information),
          'metadata': canon_metadata(p.metadata)}


def canon_study_config(sc):
  from vizier._src.service import constants
  out = canon_problem(sc)
  # the endpoint is documented to live both in the attribute and in the
  # metadata item (service, PYTHIA_ENDPOINT): compare the effective value.
  k = json.dumps([[constants.PYTHIA_ENDPOINT_NAMESPACE], constants.PYTHIA_ENDPOINT_KEY])
  ep = sc.pythia_endpoint
  if ep is None and k in out['metadata'] and out['metadata'][k].startswith('s:'):
    ep = out['metadata'][k][2:]
  out['metadata'].pop(k, None)
  out['endpoint'] = ep
  out['algorithm'] = sc.algorithm
  out['noise'] = sc.observation_noise.name
  asc = sc.automated_stopping_config
  out['stopping'] = None if asc is None else [type(asc.to_proto()).__name__,
                                              asc.to_proto().SerializeToString(deterministic=True).hex()]
  return out


def canon_descriptor(d):
  return {'config': canon_problem(d.config), 'guid': d.guid, 'max_trial_id': d.max_trial_id}


def canon_suggest_request(r):
  return {'descriptor': canon_descriptor(r._study_descriptor),   # pylint: disable=protected-access
          'count': r.count, 'checkpoint_dir': unset(r.checkpoint_dir)}


def canon_suggest_decision(d):
  return {'suggestions': [canon_suggestion(s) for s in d.suggestions],
          'metadata': canon_delta(d.metadata)}


def canon_earlystop_request(r):
  # a repeated proto3 field has no presence: None and the empty set coincide
  return {'descriptor': canon_descriptor(r._study_descriptor),   # pylint: disable=protected-access
          'trial_ids': sorted(r.trial_ids) if r.trial_ids else [],
          'checkpoint_dir': unset(r.checkpoint_dir)}


def canon_earlystop_decisions(d):
  return {'decisions': [{'id': e.id, 'reason': e.reason, 'should_stop': bool(e.should_stop),
                         'predicted': (None if e.predicted_final_measurement is None
                                       else canon_measurement(e.predicted_final_measurement))}
                        for e in d.decisions],
          'metadata': canon_delta(d.metadata)}


CANON = {
    'ParameterConfig': canon_pc,
    'MetricInformation': canon_metric,
    'StudyConfig': canon_study_config,
    'ProblemStatement': canon_problem,
    'Measurement': canon_measurement,
    'Trial': canon_trial,
    'TrialSuggestion': canon_suggestion,
    'MetadataDelta': canon_delta,
    'SuggestRequest': canon_suggest_request,
    'SuggestDecision': canon_suggest_decision,
    'EarlyStopRequest': canon_earlystop_request,
    'EarlyStopDecisions': canon_earlystop_decisions,
}


# ---------------------------------------------------------------------------
# diff
# ---------------------------------------------------------------------------
def _ulp(x):
  try:
    return math.ulp(x)
  except (OverflowError, ValueError):
    return 0.0


def leaf_equal(a, b):
  if isinstance(a, float) and isinstance(b, float):
    if a != a and b != b:
      return True
    return a == b
  if isinstance(a, bool) != isinstance(b, bool):
    return False
  return a == b and (a is None) == (b is None)


def diff(a, b, path=()):
  """List of (path, a, b) where the canonical forms differ."""
  if isinstance(a, dict) and isinstance(b, dict):
    if set(a) == {'__us__'} and set(b) == {'__us__'}:
      # datetimes have microsecond resolution: 'preserved to the microsecond' means equal
      return [] if a['__us__'] == b['__us__'] else [(path, a, b)]
    if set(a) == {'__secs__'} and set(b) == {'__secs__'}:
      x, y = a['__secs__'], b['__secs__']
      tol = 5e-7 + 4 * _ulp(max(abs(x), abs(y)))
      return [] if abs(x - y) <= tol else [(path, a, b)]
    out = []
    for k in sorted(set(a) | set(b), key=str):
      if k not in a:
        out.append((path + (k,), '<absent>', b[k]))
      elif k not in b:
        out.append((path + (k,), a[k], '<absent>'))
      else:
        out.extend(diff(a[k], b[k], path + (k,)))
    return out
  if isinstance(a, list) and isinstance(b, list):
    if len(a) != len(b):
      return [(path + ('#len',), len(a), len(b))]
    out = []
    for i, (x, y) in enumerate(zip(a, b)):
      out.extend(diff(x, y, path + (i,)))
    return out
  if type(a) in (dict, list) or type(b) in (dict, list):
    return [(path, a, b)]
  return [] if leaf_equal(a, b) else [(path, a, b)]


# ---------------------------------------------------------------------------
# proto comparison for the second conversion
# ---------------------------------------------------------------------------
_TIME_TYPES = ('google.protobuf.Timestamp', 'google.protobuf.Duration')


def _repeated(fd):
  r = getattr(fd, 'is_repeated', None)
  if r is not None:
    return r() if callable(r) else bool(r)
  return fd.label == fd.LABEL_REPEATED


def _align_times(a, b):
  """Copies a's Timestamp/Duration into b where they agree to 1 microsecond."""
  for fd in a.DESCRIPTOR.fields:
    if fd.message_type is None:
      continue
    if fd.message_type.GetOptions().map_entry:
      continue
    if _repeated(fd):
      ra, rb = getattr(a, fd.name), getattr(b, fd.name)
      if len(ra) == len(rb):
        for x, y in zip(ra, rb):
          _align_times(x, y)
      continue
    if not (a.HasField(fd.name) and b.HasField(fd.name)):
      continue
    x, y = getattr(a, fd.name), getattr(b, fd.name)
    if fd.message_type.full_name in _TIME_TYPES:
      # below half a microsecond: rounding of a float64 unix timestamp (2 x 119 ns)
      if abs((x.seconds - y.seconds) * 10 ** 9 + (x.nanos - y.nanos)) < 500:
        y.CopyFrom(x)
    else:
      _align_times(x, y)


def _sort_metrics(p):
  for field in ('metrics', 'metric_information'):
    if field in p.DESCRIPTOR.fields_by_name:
      ms = sorted(getattr(p, field), key=lambda m: m.metric_id)
      copies = [type(m).FromString(m.SerializeToString()) for m in ms]
      del getattr(p, field)[:]
      getattr(p, field).extend(copies)
  for fd in p.DESCRIPTOR.fields:
    if fd.message_type is not None and not _repeated(fd) \
        and not fd.message_type.GetOptions().map_entry and p.HasField(fd.name) \
        and fd.message_type.full_name.startswith('vizier.'):
      _sort_metrics(getattr(p, fd.name))


def _sort_metadata(p):
  """Sorts every repeated KeyValue / UnitMetadataUpdate field (a map by meaning)."""
  for fd in p.DESCRIPTOR.fields:
    mt = fd.message_type
    if mt is None or mt.GetOptions().map_entry:
      continue
    if _repeated(fd):
      items = getattr(p, fd.name)
      if mt.full_name == 'vizier.KeyValue':
        key = lambda kv: (kv.ns, kv.key)
      elif mt.full_name == 'vizier.UnitMetadataUpdate':
        key = lambda u: (u.HasField('trial_id'), u.trial_id, u.metadatum.ns, u.metadatum.key)
      else:
        if mt.full_name.startswith('vizier.'):
          for it in items:
            _sort_metadata(it)
        continue
      copies = [type(m).FromString(m.SerializeToString(deterministic=True))
                for m in sorted(items, key=key)]
      del items[:]
      items.extend(copies)
    elif mt.full_name.startswith('vizier.') and p.HasField(fd.name):
      _sort_metadata(getattr(p, fd.name))


def protos_compare(p1, p2):
  """'identical' | 'identical-up-to-metadata-order' | 'different'.

  Deterministic serialisations compared after sorting metrics by name and aligning
  Timestamp/Duration fields that agree to the microsecond.
  """
  if isinstance(p1, (list, tuple)):
    if len(p1) != len(p2):
      return 'different'
    from vizier._src.service import vizier_service_pb2
    w1 = vizier_service_pb2.UpdateMetadataRequest(delta=p1)
    w2 = vizier_service_pb2.UpdateMetadataRequest(delta=p2)
    return protos_compare(w1, w2)
  a = type(p1).FromString(p1.SerializeToString(deterministic=True))
  b = type(p2).FromString(p2.SerializeToString(deterministic=True))
  _sort_metrics(a)
  _sort_metrics(b)
  _align_times(a, b)
  if a.SerializeToString(deterministic=True) == b.SerializeToString(deterministic=True):
    return 'identical'
  _sort_metadata(a)
  _sort_metadata(b)
  if a.SerializeToString(deterministic=True) == b.SerializeToString(deterministic=True):
    return 'identical-up-to-metadata-order'
  return 'different'


def proto_text(p, limit=1500):
  from google.protobuf import text_format
  if isinstance(p, (list, tuple)):
    return [proto_text(x, limit // max(1, len(p))) for x in p]
  return text_format.MessageToString(p, as_utf8=True)[:limit]


# ---------------------------------------------------------------------------
# shape features (distinctness / counters)
# ---------------------------------------------------------------------------
def space_depth(c):
  """Depth of a canonical space: 0 flat, 1 children, 2 grandchildren ..."""
  d = 0
  for p in c.values():
    for sub in p['@children'].values():
      d = max(d, 1 + space_depth(sub))
  return d


def space_features(c, feats, depth=0):
  for p in c.values():
    feats.add('kind:' + p['type'])
    feats.add('scale:%s' % p['scale'])
    feats.add('ext:' + p['external'])
    if p['default'] is not None:
      feats.add('default')
      if not p['default'][1]:
        feats.add('default:falsy:' + p['type'])
    if len(p['@children']) > 1:
      feats.add('multi-parent-values')
    for sub in p['@children'].values():
      feats.add('depth>=%d' % (depth + 1))
      space_features(sub, feats, depth + 1)
