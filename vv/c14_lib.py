"""Execution of one seeded run for C14 (shared by the check and its child process).

`execute(case)` builds everything from the JSON-able case and returns a JSON-able
stream; it keeps no state between calls.
"""
import contextlib
import functools
import random
import time

from vv import c13_lib as L

STREAM_KINDS = ['random', 'qr', 'sgrid', 'eagle', 'nsga2', 'cmaes']
GP_KINDS = ['gp_bandit', 'gp_ucb_pe']
JAX_KINDS = ['cmaes', 'gp_bandit', 'gp_ucb_pe']   # streams drawn from jax.random


def make_seeded_factory(ds):
  """f(problem, seed=None) for every designer of the property's quantifier."""
  kind, cfg = ds['kind'], ds.get('cfg', {})
  if kind == 'eagle' and cfg.get('config') is not None:
    # explicit (public) FireflyAlgorithmConfig fields, e.g. a small pool so that the
    # later phases of the algorithm are reached by a short history
    from vizier._src.algorithms.designers.eagle_strategy import eagle_strategy
    from vizier._src.algorithms.designers.eagle_strategy import eagle_strategy_utils as esu
    def f(p, seed=None):
      return eagle_strategy.EagleStrategyDesigner(
          p, config=esu.FireflyAlgorithmConfig(**cfg['config']), seed=seed)
    return f
  if kind in L.DESIGNER_KINDS or kind == 'random':
    return L.make_factory(ds)
  if kind == 'gp_bandit':
    from vizier._src.algorithms.designers import gp_bandit
    def f(p, seed=None):
      kw = {}
      if cfg.get('light'):
        from vizier._src.algorithms.optimizers import eagle_strategy as es
        from vizier._src.algorithms.optimizers import vectorized_base as vb
        kw['acquisition_optimizer_factory'] = vb.VectorizedOptimizerFactory(
            strategy_factory=es.VectorizedEagleStrategyFactory(),
            max_evaluations=1000, suggestion_batch_size=25)
        kw['ard_random_restarts'] = 1
      if cfg.get('num_seed_trials'):
        kw['num_seed_trials'] = cfg['num_seed_trials']
      return gp_bandit.VizierGPBandit.from_problem(p, seed=seed, **kw)
    return f
  if kind == 'gp_ucb_pe':
    from vizier._src.algorithms.designers import gp_ucb_pe
    def f(p, seed=None):
      import jax
      kw = {}
      if cfg.get('num_seed_trials'):
        kw['num_seed_trials'] = cfg['num_seed_trials']
      if seed is None:
        return gp_ucb_pe.VizierGPUCBPEBandit(p, **kw)
      return gp_ucb_pe.VizierGPUCBPEBandit(p, rng=jax.random.PRNGKey(int(seed)), **kw)
    return f
  raise ValueError(kind)


# ---------------------------------------------------------------------------
# What the last run_stream() in this process went through (not part of the compared
# stream): for Eagle, whether a suggestion was drawn for a *new* fly after flies had
# already been moved, i.e. the pool was full, lost a fly and was re-populated from
# the initial (quasi-random) designer.
last_obs = {}


class _FlyPhases:
  """Reads the public `eagle/parent_fly_id` suggestion metadata."""

  def __init__(self):
    self.seen, self.moved, self.refill_at, self.n = set(), False, None, 0

  def see(self, items):
    for s in items:
      self.n += 1
      try:
        pid = s.metadata.ns('eagle').get('parent_fly_id')
      except Exception:  # pylint: disable=broad-except
        pid = None
      if pid is None:
        continue
      if pid in self.seen:
        self.moved = True
      elif self.moved and self.refill_at is None:
        self.refill_at = self.n
      self.seen.add(pid)

  def publish(self, kind):
    global last_obs
    last_obs = {'kind': kind, 'suggestions': self.n, 'moved': self.moved,
                'refill_at': self.refill_at}


def run_stream(case):
  """Suggestion stream of one designer run: list (steps) of canonical suggestions."""
  try:
    return _run_stream(case, _FlyPhases())
  except Exception:
    global last_obs
    last_obs = {}
    raise


def _run_stream(case, phases):
  import copy
  from vizier import algorithms as vza
  pd, ds, seed, script = case['problem'], case['designer'], case['seed'], case['script']
  problem = L.build_problem(pd)
  factory = make_seeded_factory(ds)
  out = []
  if case.get('wrap') == 'inram_policy':
    from vizier import pyvizier as vz
    from vizier._src.benchmarks.runners import benchmark_state
    sug = benchmark_state.PolicySuggester.from_designer_factory(problem, factory, seed=seed)
    for i, b in enumerate(script['batches']):
      trials = sug.suggest(b)
      out.append(L.canon_suggestions(trials))
      phases.see(trials)
      for t in sug.supporter.GetTrials(status_matches=vz.TrialStatus.ACTIVE):
        verdict = L.decide(script, t.id, i)
        if verdict != 'wait':
          L.complete_trial(pd, script, t, verdict)
    phases.publish(ds['kind'])
    return out
  if case.get('wrap') == 'stateless_policy':
    # the way the service hosts a stateful designer: a new policy object per
    # request; the designer is rebuilt (without its seed) and restores its state,
    # seed included, from the study metadata written by the previous request
    from vizier import pyvizier as vz
    from vizier._src.algorithms.policies import designer_policy as dp
    from vizier._src.pythia import local_policy_supporters as lps
    sup = lps.InRamPolicySupporter(problem)
    for i, b in enumerate(script['batches']):
      policy = dp.PartiallySerializableDesignerPolicy(
          sup.study_descriptor().config, sup, factory, seed=seed)
      trials = sup.SuggestTrials(policy, b)
      out.append(L.canon_suggestions(trials))
      phases.see(trials)
      for t in sup.GetTrials(status_matches=vz.TrialStatus.ACTIVE):
        verdict = L.decide(script, t.id, i)
        if verdict != 'wait':
          L.complete_trial(pd, script, t, verdict)
    phases.publish(ds['kind'])
    return out
  designer = factory(problem, seed=seed)
  active = {}
  next_id = 1
  for i, b in enumerate(script['batches']):
    suggestions = list(designer.suggest(b))
    out.append(L.canon_suggestions(suggestions))
    phases.see(suggestions)
    for s in suggestions:
      active[next_id] = s.to_trial(next_id)
      next_id += 1
    done = []
    for tid in sorted(active):
      verdict = L.decide(script, tid, i)
      if verdict != 'wait':
        L.complete_trial(pd, script, active[tid], verdict)
        done.append(active.pop(tid))
    if i + 1 < len(script['batches']):
      designer.update(vza.CompletedTrials(copy.deepcopy(done)),
                      vza.ActiveTrials(copy.deepcopy(list(active.values()))))
  phases.publish(ds['kind'])
  return out


BBOB_FNS = ['Sphere', 'Rastrigin', 'BuecheRastrigin', 'LinearSlope', 'AttractiveSector',
            'StepEllipsoidal', 'RosenbrockRotated', 'Discus', 'BentCigar', 'SharpRidge',
            'DifferentPowers', 'Weierstrass', 'SchaffersF7', 'GriewankRosenbrock',
            'Schwefel', 'Katsuura', 'Lunacek', 'Gallagher101Me']
NOISES = ['NO_NOISE', 'MODERATE_GAUSSIAN', 'SEVERE_GAUSSIAN', 'MODERATE_UNIFORM',
          'SEVERE_UNIFORM', 'MODERATE_SELDOM_CAUCHY', 'SEVERE_SELDOM_CAUCHY',
          'LIGHT_ADDITIVE_GAUSSIAN', 'SEVERE_ADDITIVE_GAUSSIAN']


class _InfeasibleFactory:
  """Experimenter factory: HashingInfeasibleExperimenter on top of another factory."""

  def __init__(self, inner, spec):
    self.inner, self.spec = inner, spec

  def __call__(self):
    from vizier._src.benchmarks.experimenters import infeasible_experimenter
    return infeasible_experimenter.HashingInfeasibleExperimenter(
        self.inner(), infeasible_prob=self.spec['p'], seed=self.spec['seed'])


def _experimenter_factory(case):
  """The standard seeded factories: SingleObjective(BBOB) with its transformations."""
  import numpy as np
  from vizier._src.benchmarks.experimenters import experimenter_factory as xf_lib
  xf = case.get('xf') or {}
  kw = {}
  if xf.get('shift') is not None:
    kw['shift'] = np.asarray(xf['shift'], dtype=float)
  if xf.get('normalize'):
    kw['num_normalization_samples'] = int(xf['normalize'])
  if xf.get('discrete'):
    kw['discrete_dict'] = {int(k): int(v) for k, v in xf['discrete'].items()}
  if xf.get('categorical'):
    kw['categorical_dict'] = {int(k): int(v) for k, v in xf['categorical'].items()}
  if xf.get('permute_seed') is not None:
    kw['permute_categoricals'] = True
    kw['permute_seed'] = int(xf['permute_seed'])
  f = xf_lib.SingleObjectiveExperimenterFactory(
      xf_lib.BBOBExperimenterFactory(name=case['fn'], dim=case['dim'],
                                     rotation_seed=case['fn_seed']),
      noise_type=case['noise'], noise_seed=case['noise_seed'], **kw)
  if case.get('infeasible'):
    f = _InfeasibleFactory(f, case['infeasible'])
  return f


# designers that can be hosted by PartiallySerializableDesignerPolicy (they implement
# dump / load); RandomDesigner does not
PARTIALLY_SERIALIZABLE_KINDS = ['qr', 'sgrid', 'eagle', 'nsga2', 'cmaes']
# designers whose whole stream state (seed included) is persisted by dump(): a designer
# rebuilt and restored at every request continues the very stream of one kept in RAM
# (Eagle dumps its generator, pool and initial designer; NSGA-II / CMA-ES document that
# their RNG is not persisted)
FULLY_PERSISTED_KINDS = ['qr', 'sgrid', 'eagle']


def deterministic_experimenter(case):
  """A BBOB experimenter without any random state: same input, same measurement.

  Bare NumpyExperimenter, optionally under the deterministic wrappers (sign flip,
  shift, hash-decided infeasibility). Such an object may be held by a benchmark
  (DesignerBenchmarkStateFactory / PolicyBenchmarkStateFactory hold one experimenter)
  and serve any number of seeded runs.
  """
  import numpy as np
  from vizier._src.benchmarks.experimenters import numpy_experimenter
  from vizier._src.benchmarks.experimenters.synthetic import bbob
  problem = bbob.DefaultBBOBProblemStatement(case['dim'])
  impl = functools.partial(getattr(bbob, case['fn']), seed=case['fn_seed'])
  exptr = numpy_experimenter.NumpyExperimenter(impl, problem)
  for w in case.get('wrappers') or []:
    if w[0] == 'signflip':
      from vizier._src.benchmarks.experimenters import sign_flip_experimenter
      exptr = sign_flip_experimenter.SignFlipExperimenter(exptr)
    elif w[0] == 'shift':
      from vizier._src.benchmarks.experimenters import shifting_experimenter
      exptr = shifting_experimenter.ShiftingExperimenter(
          exptr, shift=np.asarray(w[1], dtype=float))
    elif w[0] == 'infeasible':
      from vizier._src.benchmarks.experimenters import infeasible_experimenter
      exptr = infeasible_experimenter.HashingInfeasibleExperimenter(
          exptr, infeasible_prob=w[1]['p'], seed=w[1]['seed'])
    else:
      raise ValueError(w)
  return exptr


def problem_fingerprint(problem):
  """What a run is given as 'the problem': parameters, metrics and goals, metadata."""
  md = sorted((str(ns), k, repr(v)[:80]) for ns, k, v in problem.metadata.all_items())
  return {
      'parameters': sorted((pc.name, pc.type.name, repr(pc.bounds) if pc.type.name in (
          'DOUBLE', 'INTEGER') else repr(list(pc.feasible_values)))
                           for pc in problem.search_space.parameters),
      'metrics': sorted((m.name, m.goal.name) for m in problem.metric_information),
      'metadata_items': len(md), 'metadata_head': md[:4]}


def shared_state(case, exptr, seed):
  """One seeded BenchmarkState on an experimenter object the caller holds."""
  from vizier._src.benchmarks.runners import benchmark_state
  factory = make_seeded_factory(case['designer'])
  if case.get('policy', 'inram') == 'inram':
    return benchmark_state.DesignerBenchmarkStateFactory(
        experimenter=exptr, designer_factory=factory)(seed=seed)
  # the policy class the service uses for GRID_SEARCH / QUASI_RANDOM_SEARCH / EAGLE
  from vizier._src.algorithms.policies import designer_policy as dp
  from vizier._src.pythia import local_policy_supporters as lps
  problem = exptr.problem_statement()
  supporter = lps.InRamPolicySupporter(problem)
  policy = dp.PartiallySerializableDesignerPolicy(problem, supporter, factory, seed=seed)
  return benchmark_state.BenchmarkState(
      experimenter=exptr, algorithm=benchmark_state.PolicySuggester(policy, supporter))


def _runner(case):
  from vizier._src.benchmarks.runners import benchmark_runner
  subs = []
  for op, n in case['routine']:
    subs.append({'GE': benchmark_runner.GenerateAndEvaluate,
                 'GS': benchmark_runner.GenerateSuggestions,
                 'FA': benchmark_runner.FillActiveTrials,
                 'EA': benchmark_runner.EvaluateActiveTrials}[op](n))
  return benchmark_runner.BenchmarkRunner(subs, num_repeats=case['repeats'])


def run_bench_shared(case, seeds):
  """One experimenter object + one runner serve len(seeds) consecutive seeded runs.

  Returns ([trial sequence per run], [problem fingerprint handed to each run]).
  """
  exptr = deterministic_experimenter(case)
  runner = _runner(case)
  out, problems = [], []
  for s in seeds:
    problems.append(problem_fingerprint(exptr.problem_statement()))
    state = shared_state(case, exptr, s)
    runner.run(state)
    out.append(_trial_sequence(state))
  return out, problems


def _bench_parts(case):
  """(state factory, runner): the two long-lived objects of a benchmark."""
  from vizier._src.benchmarks.experimenters import noisy_experimenter
  from vizier._src.benchmarks.experimenters import numpy_experimenter
  from vizier._src.benchmarks.experimenters.synthetic import bbob
  from vizier._src.benchmarks.runners import benchmark_runner
  from vizier._src.benchmarks.runners import benchmark_state
  factory = make_seeded_factory(case['designer'])
  if case.get('via') == 'exptr_factory':
    # the experimenter is described by a factory; every state gets its own
    state_factory = benchmark_state.ExperimenterDesignerBenchmarkStateFactory(
        experimenter_factory=_experimenter_factory(case), designer_factory=factory)
  else:
    problem = bbob.DefaultBBOBProblemStatement(case['dim'])
    impl = functools.partial(getattr(bbob, case['fn']), seed=case['fn_seed'])
    exptr = numpy_experimenter.NumpyExperimenter(impl, problem)
    exptr = noisy_experimenter.NoisyExperimenter.from_type(
        exptr, case['noise'], seed=case['noise_seed'])
    if case.get('infeasible'):
      from vizier._src.benchmarks.experimenters import infeasible_experimenter
      exptr = infeasible_experimenter.HashingInfeasibleExperimenter(
          exptr, infeasible_prob=case['infeasible']['p'], seed=case['infeasible']['seed'])
    state_factory = benchmark_state.DesignerBenchmarkStateFactory(
        experimenter=exptr, designer_factory=factory)
  subs = []
  for op, n in case['routine']:
    if op == 'GE':
      subs.append(benchmark_runner.GenerateAndEvaluate(n))
    elif op == 'GS':
      subs.append(benchmark_runner.GenerateSuggestions(n))
    elif op == 'FA':
      subs.append(benchmark_runner.FillActiveTrials(n))
    elif op == 'EA':
      subs.append(benchmark_runner.EvaluateActiveTrials(n))
    else:
      raise ValueError(op)
  return state_factory, benchmark_runner.BenchmarkRunner(subs, num_repeats=case['repeats'])


def _trial_sequence(state):
  out = []
  for t in state.algorithm.supporter.GetTrials():
    metrics = sorted((k, repr(float(m.value))) for k, m in (
        t.final_measurement.metrics.items() if t.final_measurement else []))
    out.append([t.id, L.canon_params(t.parameters), metrics, t.status.name,
                bool(t.infeasible)])
  return out


def run_bench(case):
  """Trial sequence of one seeded BenchmarkRunner execution (everything built anew)."""
  if case.get('via') == 'shared_exptr':
    return run_bench_shared(case, [case['seed']])[0][0]
  state_factory, runner = _bench_parts(case)
  state = state_factory(seed=case['seed'])
  runner.run(state)
  return _trial_sequence(state)


def run_bench_reused(case, seeds):
  """One state factory and one runner serve len(seeds) consecutive seeded runs."""
  state_factory, runner = _bench_parts(case)
  out = []
  for s in seeds:
    state = state_factory(seed=s)
    runner.run(state)
    out.append(_trial_sequence(state))
  return out


def execute_reused(case, seeds):
  import json
  return json.loads(json.dumps(run_bench_reused(case, seeds)))


def execute_shared(case, seeds):
  import json
  return json.loads(json.dumps(run_bench_shared(case, seeds)))


def execute(case):
  import json
  out = run_bench(case) if case['type'] == 'bench' else run_stream(case)
  # JSON-canonical (tuples -> lists), identical to what a child process returns
  return json.loads(json.dumps(out))


# ---------------------------------------------------------------------------
# perturbation of everything a seeded run must not depend on
# ---------------------------------------------------------------------------
@contextlib.contextmanager
def shifted_clock(shift):
  real = time.time
  time.time = lambda: real() + shift
  try:
    yield
  finally:
    time.time = real


def perturb_globals(k):
  """Re-seeds / advances every process-global random source."""
  import numpy as np
  random.seed(k)
  for _ in range(k % 7):
    random.random()
  np.random.seed(k % (2 ** 32))
  np.random.random(k % 5 + 1)
  try:
    import jax
    key = jax.random.PRNGKey(k % (2 ** 31))
    for _ in range(3):
      key, sub = jax.random.split(key)
      jax.random.uniform(sub, [2]).block_until_ready()
  except Exception:  # pylint: disable=broad-except
    pass


def flat_first_diff(a, b):
  """1-based number of the first suggestion at which two step streams differ."""
  if not isinstance(a, list) or not isinstance(b, list):
    return None
  n = 0
  for x, y in zip(a, b):
    if not isinstance(x, list) or not isinstance(y, list):
      return n + 1
    for j in range(min(len(x), len(y))):
      if x[j] != y[j]:
        return n + j + 1
    if len(x) != len(y):
      return n + min(len(x), len(y)) + 1
    n += len(x)
  return n + 1 if len(a) != len(b) else None


def first_diff(a, b):
  """(step, index) of the first difference between two streams."""
  if not isinstance(a, list) or not isinstance(b, list):
    return None
  for i in range(min(len(a), len(b))):
    if a[i] != b[i]:
      if isinstance(a[i], list) and isinstance(b[i], list):
        for j in range(min(len(a[i]), len(b[i]))):
          if a[i][j] != b[i][j]:
            return [i, j, a[i][j], b[i][j]]
        return [i, 'len', len(a[i]), len(b[i])]
      return [i, None, a[i], b[i]]
  return ['len', len(a), len(b)]
