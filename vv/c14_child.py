"""Fresh-process executor for C14: python -m vv.c14_child in.json out.json

Reads {'cases': [...], 'perturb': k|None}; writes {'streams': [...], 'errors': [...],
'hashseed': ..., 'x64': bool}. Imports vv.boot first like every harness process.
"""
import json
import os
import sys

import vv.boot  # noqa: F401  (must be first)

from vv import c14_lib


def main():
  with open(sys.argv[1]) as fh:
    job = json.load(fh)
  if job.get('perturb') is not None:
    c14_lib.perturb_globals(job['perturb'])
  if job.get('construct_servicer'):
    from vizier._src.service import pythia_service
    pythia_service.PythiaServicer()
  streams, errors = [], []
  for case in job['cases']:
    try:
      streams.append(c14_lib.execute(case))
      errors.append(None)
    except Exception as e:  # pylint: disable=broad-except
      streams.append(None)
      errors.append(f'{type(e).__name__}: {e}')
  x64 = None
  try:
    import jax
    x64 = bool(jax.config.jax_enable_x64)
  except Exception:  # pylint: disable=broad-except
    pass
  with open(sys.argv[2], 'w') as fh:
    json.dump({'streams': streams, 'errors': errors,
               'hashseed': os.environ.get('PYTHONHASHSEED'), 'x64': x64}, fh)


if __name__ == '__main__':
  main()
