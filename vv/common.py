"""Shared runner machinery: per-shard context, merging, evidence, verdicts.

A check module `vv.checks.cNN` defines

  PROPERTY = 'CNN'
  LEVEL = 'exploration' | 'fault_enumeration'
  RULE = '...how cases are generated, what makes one distinct/non-trivial...'
  ASSUMPTIONS = [...]
  REQUIRED_COUNTERS = [...]          # zero after merge => INCONCLUSIVE
  MIN_DISTINCT = {'quick': n, 'thorough': m}
  def plan(tier, seed) -> dict        # optional: {'shards': n, 'watchdog_s': s}
  def run_shard(ctx) -> None          # drives cases, reports through ctx
  def replay(ctx, case) -> None       # re-executes one recorded case
  def classify(v) -> str              # optional: abstract witness -> mechanism id

Verdicts are three valued: HELD (0), VIOLATION (1), INCONCLUSIVE (2).
"""
import hashlib
import json
import os
import random
import time
import traceback

VERIF = os.path.dirname(os.path.dirname(os.path.abspath(__file__)))


# POSIX TZ strings (no tz database needed): UTC, east, west, one with DST rules
TIME_ZONES = ['UTC', 'PST8', 'JST-9', 'UTC', 'CET-1CEST,M3.5.0,M10.5.0/3', 'EST5EDT,M3.2.0,M11.1.0']


def stable_hash(obj) -> str:
  return hashlib.sha1(
      json.dumps(obj, sort_keys=True, default=repr).encode()).hexdigest()[:16]


def case_rng(seed: int, prop: str, index: int, salt: str = '') -> random.Random:
  h = hashlib.sha256(f'{seed}/{prop}/{index}/{salt}'.encode()).digest()
  return random.Random(int.from_bytes(h[:8], 'big'))


def jsonable(x, depth=0):
  """Best-effort conversion of a witness into JSON."""
  if depth > 12:
    return repr(x)
  if isinstance(x, (str, int, bool)) or x is None:
    return x
  if isinstance(x, float):
    if x != x or x in (float('inf'), float('-inf')):
      return repr(x)
    return x
  if isinstance(x, dict):
    return {str(k): jsonable(v, depth + 1) for k, v in x.items()}
  if isinstance(x, (list, tuple, set, frozenset)):
    return [jsonable(v, depth + 1) for v in x]
  try:
    import numpy as np
    if isinstance(x, np.ndarray):
      return jsonable(x.tolist(), depth + 1)
    if isinstance(x, np.generic):
      return jsonable(x.item(), depth + 1)
  except Exception:  # pylint: disable=broad-except
    pass
  return repr(x)


class Ctx:
  """What a shard reports into."""

  def __init__(self, prop, tier, seed, shard, nshards, budget_s):
    self.prop = prop
    self.tier = tier
    self.seed = seed
    self.shard = shard
    self.nshards = nshards
    self.t0 = time.time()
    self.budget_s = budget_s
    self.evaluations = 0
    self.distinct = set()
    self.counters = {}
    self.samples = []
    self.violations = []
    self.inconclusive = []
    self.notes = []
    self.max_samples = 3
    self.max_violations = 40
    self.time_zone = None
    # where to leave what has been observed so far (the driver sets it): a worker killed by
    # a native crash in a numerical library then loses the crashing case, not the shard
    self.checkpoint_path = None
    self.checkpoint_every_s = float(os.environ.get('VV_CHECKPOINT_S', 40.0))
    self._last_checkpoint = time.time()

  # -- case partitioning -------------------------------------------------
  def mine(self, index: int) -> bool:
    return index % self.nshards == self.shard

  def rng(self, index: int, salt: str = '') -> random.Random:
    return case_rng(self.seed, self.prop, index, salt)

  def out_of_time(self) -> bool:
    return (time.time() - self.t0) > self.budget_s

  def elapsed(self):
    return time.time() - self.t0

  # -- reporting ---------------------------------------------------------
  def case(self, abstraction, nontrivial=True, n=1):
    """Record one executed case; `abstraction` is hashed for distinctness."""
    self.evaluations += n
    if nontrivial:
      self.distinct.add(stable_hash(abstraction))
    if self.checkpoint_path and time.time() - self._last_checkpoint > self.checkpoint_every_s:
      self.write_checkpoint()

  def write_checkpoint(self):
    self._last_checkpoint = time.time()
    try:
      tmp = self.checkpoint_path + '.tmp'
      res = self.result()
      res['partial'] = True
      with open(tmp, 'w') as fh:
        json.dump(res, fh)
      os.replace(tmp, self.checkpoint_path)
    except Exception:  # pylint: disable=broad-except
      pass

  def count(self, key, n=1):
    self.counters[key] = self.counters.get(key, 0) + n

  def sample(self, obj, force=False):
    if force or len(self.samples) < self.max_samples:
      self.samples.append(jsonable(obj))

  def violation(self, mech, what, case, witness=None):
    """mech: abstract mechanism id (string) used for known-finding matching."""
    self.count('violations_raised')
    if len(self.violations) >= self.max_violations:
      # keep one per mechanism beyond the cap
      if any(v['mech'] == mech for v in self.violations):
        self.count('violations_dropped_over_cap:' + mech)
        return
    case = jsonable(case)
    if self.time_zone and isinstance(case, dict) and '_tz' not in case:
      case = dict(case, _tz=self.time_zone)
    self.violations.append({
        'mech': mech, 'what': what, 'case': case,
        'witness': jsonable(witness)})

  def inconclusive_reason(self, reason):
    self.inconclusive.append(reason)

  def note(self, s):
    self.notes.append(s)

  def result(self):
    return {
        'evaluations': self.evaluations,
        'distinct': sorted(self.distinct),
        'counters': self.counters,
        'samples': self.samples,
        'violations': self.violations,
        'inconclusive': self.inconclusive,
        'notes': self.notes,
        'elapsed': self.elapsed(),
    }


def merge_counters(a, b):
  for k, v in b.items():
    if isinstance(v, dict):
      merge_counters(a.setdefault(k, {}), v)
    else:
      a[k] = a.get(k, 0) + v
  return a


def load_known_findings():
  path = os.path.join(VERIF, 'known_findings.json')
  if not os.path.exists(path):
    return {'findings': [], 'fixed': []}
  with open(path) as fh:
    return json.load(fh)


def guarded(ctx, case, fn, *a, **kw):
  """Run fn; an unexpected harness exception is reported as inconclusive."""
  try:
    return fn(*a, **kw)
  except Exception as e:  # pylint: disable=broad-except
    ctx.inconclusive_reason(
        f'harness-error {type(e).__name__}: {e} :: '
        + traceback.format_exc().splitlines()[-3].strip())
    return None


class RepoRefusedValidInput(Exception):
  """Raised by harness builders when the repository rejects (raises on) an input
  that the documentation says is valid, at a place where the harness cannot
  continue. The runner turns it into a violation (not into an inconclusive
  shard crash): refusing a valid definition is observable misbehaviour."""

  def __init__(self, mech, what, case):
    super().__init__(what)
    self.mech, self.what, self.case = mech, what, case
