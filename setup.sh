#!/bin/sh
# Offline setup: contracts library beside the repo's interpreter, byte-compile, self-test.
set -e
cd "$(dirname "$0")"
if [ ! -d .deps/icontract ]; then
  PIP_NO_INDEX=1 /venv/bin/python -m pip install --quiet --no-index \
    --find-links /opt/veriftools/wheels --target .deps icontract deal >/dev/null 2>&1 || true
fi
/venv/bin/python -m compileall -q vv >/dev/null
/venv/bin/python -m vv.selftest
