#!/bin/sh
# thorough tier at the registered configuration (no overrides), sequentially
for c in ${CHECKS:-C14 C19 C11 C16 C20 C18 C13 C03 C15 C17 C09 C12}; do
  echo "=== $c $(date +%H:%M:%S)"
  /venv/bin/python -m vv.run $c --tier thorough 2>&1 | grep -E "^(VIOLATION|RESULT|INCONCLUSIVE|KNOWN)" | cut -c1-300
done
echo "=== done $(date +%H:%M:%S)"
