#!/bin/sh
# quick tier over several seeds, sequentially, from a snapshot against /repo
for s in ${SEEDS:-2 3 4 5}; do
for c in C01 C02 C03 C04 C05 C06 C07 C08 C09 C10 C11 C12 C13 C14 C15 C16 C17 C18 C19 C20; do
  echo "=== $c seed=$s $(date +%H:%M:%S)"
  VERIF_SEED=$s VV_SHARDS=${VV_SHARDS:-8} /venv/bin/python -m vv.run $c --tier quick 2>&1 | grep -E "^(VIOLATION|RESULT|INCONCLUSIVE)" | cut -c1-300
done
done
echo "=== done $(date +%H:%M:%S)"
