#!/usr/bin/env python3
"""Evaluates one seeded change against the checks.

usage: tools/eval_seed.py <seed dir with patch.diff, demo.py, meta.json> [--checks C01,C07] [--tier quick] [--budget 60]

Steps (all in a scratch git worktree of /repo, removed afterwards; /repo itself is never touched):
  1. patch applies cleanly to /repo HEAD;
  2. the pinned baseline suite still passes (131 passed);
  3. demo.py exits 0 on the unchanged tree and non-zero on the changed tree;
  4. each named check is run on the changed tree (VV_REPO) and we record whether it prints a VIOLATION line.
Writes <seed dir>/eval.json.
"""
import argparse
import json
import os
import re
import subprocess
import sys
import time

VERIF = os.path.dirname(os.path.dirname(os.path.abspath(__file__)))
SEEDTOOLS = os.environ.get('SEEDTOOLS', '/tmp/seedtools')


def sh(cmd, **kw):
  return subprocess.run(cmd, capture_output=True, text=True, **kw)


def main():
  ap = argparse.ArgumentParser()
  ap.add_argument('seed_dir')
  ap.add_argument('--checks', default='')
  ap.add_argument('--tier', default='quick')
  ap.add_argument('--budget', default='60')
  ap.add_argument('--shards', default='6')
  ap.add_argument('--seeds', default='0')
  ap.add_argument('--skip-baseline', action='store_true')
  args = ap.parse_args()
  sd = os.path.abspath(args.seed_dir)
  name = os.path.basename(sd.rstrip('/'))
  wt = f'/tmp/evalwt-{name}-{os.getpid()}'
  out = {'seed': name, 'time': time.strftime('%Y-%m-%d %H:%M:%S')}
  meta = {}
  if os.path.exists(os.path.join(sd, 'meta.json')):
    try:
      meta = json.load(open(os.path.join(sd, 'meta.json')))
    except Exception:  # pylint: disable=broad-except
      pass
  checks = [c for c in args.checks.split(',') if c] or [meta.get('property')]
  sh(['git', '-C', '/repo', 'worktree', 'add', '--detach', wt, 'HEAD'])
  try:
    r = sh(['git', '-C', wt, 'apply', os.path.join(sd, 'patch.diff')])
    out['applies'] = r.returncode == 0
    if not out['applies']:
      out['apply_error'] = r.stderr[-400:]
      return out
    env = dict(os.environ, PYTHONPATH=SEEDTOOLS, VZ_REPO=wt)
    if not args.skip_baseline:
      r = sh(['/venv/bin/python', '-m', 'pytest', '-q', '-p', 'no:cacheprovider', '--timeout=900',
              '--continue-on-collection-errors'], cwd=wt)
      m = re.search(r'(\d+) passed', r.stdout)
      out['baseline_passed'] = int(m.group(1)) if m else 0
      out['baseline_failed'] = int((re.search(r'(\d+) failed', r.stdout) or [0, 0])[1])
    demo = os.path.join(sd, 'demo.py')
    if os.path.exists(demo):
      clean = wt + '-clean'
      sh(['git', '-C', '/repo', 'worktree', 'add', '--detach', clean, 'HEAD'])
      try:
        r1 = sh(['/venv/bin/python', demo], env=dict(env, VZ_REPO=clean), timeout=600)
      finally:
        sh(['git', '-C', '/repo', 'worktree', 'remove', '--force', clean])
      r2 = sh(['/venv/bin/python', demo], env=env, timeout=600)
      out['demo_unchanged_rc'] = r1.returncode
      out['demo_changed_rc'] = r2.returncode
      out['demo_changed_tail'] = (r2.stdout + r2.stderr)[-300:]
      if r1.returncode != 0:
        out['demo_unchanged_tail'] = (r1.stdout + r1.stderr)[-300:]
    out['detection'] = {}
    for c in checks:
      for seed in args.seeds.split(','):
        e = dict(os.environ, VV_REPO=wt, VV_SHARDS=args.shards, VV_BUDGET_S=args.budget, VERIF_SEED=seed)
        t0 = time.time()
        r = sh(['/venv/bin/python', '-m', 'vv.run', c, '--tier', args.tier], cwd=VERIF, env=e)
        lines = [l for l in r.stdout.splitlines() if l.startswith(('VIOLATION', 'RESULT', 'INCONCLUSIVE'))]
        viol = [l for l in lines if l.startswith('VIOLATION')]
        mechs = sorted({re.search(r'mech=(\S+)', l).group(1) for l in viol if 'mech=' in l})
        out['detection'][f'{c}@{seed}'] = {
            'detected': bool(viol), 'exit': r.returncode, 'mechanisms': mechs[:8],
            'first': viol[0][:300] if viol else (lines[-1][:200] if lines else r.stderr[-200:]),
            'wall_s': round(time.time() - t0, 1)}
    return out
  finally:
    sh(['git', '-C', '/repo', 'worktree', 'remove', '--force', wt])
    with open(os.path.join(sd, 'eval.json'), 'w') as fh:
      json.dump(out, fh, indent=1)
    print(json.dumps(out, indent=1)[:3000])


if __name__ == '__main__':
  main()
