#!/bin/sh
# sequential thorough sweep of all checks from the snapshot, against /repo
for c in ${CHECKS:-C04 C05 C07 C12 C18 C09 C03 C13 C14 C17 C19 C20 C11 C16 C06 C08 C10 C01 C02 C15}; do
  echo "=== $c $(date +%H:%M:%S)"
  VV_SHARDS=${VV_SHARDS:-8} VV_BUDGET_S=${VV_BUDGET_S:-500} /venv/bin/python -m vv.run $c --tier thorough 2>&1 | grep -E "^(VIOLATION|RESULT|INCONCLUSIVE|KNOWN)" | cut -c1-400
done
echo "=== done $(date +%H:%M:%S)"
