#!/bin/sh
# sequential thorough sweep of all checks from the snapshot, against /repo
for c in C18 C16 C17 C09 C10 C11 C20 C15 C12 C01 C02 C06 C07 C08 C04 C05 C13 C14 C19 C03; do
  echo "=== $c $(date +%H:%M:%S)"
  VV_SHARDS=8 /venv/bin/python -m vv.run $c --tier thorough 2>&1 | grep -E "^(VIOLATION|RESULT|INCONCLUSIVE|KNOWN)" | cut -c1-400
done
echo "=== done $(date +%H:%M:%S)"
