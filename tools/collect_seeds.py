#!/usr/bin/env python3
"""Copies evaluated seeded changes from /tmp/seed-out into /verif/seeded/<id>/ and
writes the detection table used in DESIGN.md section 9."""
import glob
import json
import os
import shutil

SRC = os.environ.get('SEED_SRC', '/tmp/seed-out')
DST = os.path.join(os.path.dirname(os.path.dirname(os.path.abspath(__file__))), 'seeded')
HISTORY = {
    # seeds first missed by the then-current checks and what was strengthened
    'C03-1': 'missed at first (no partly-boolean space reached the model phase of HARMONICA); C03 got a partly-boolean negative slice and a fixed witness class',
    'C03-2': 'missed at first (no bounds with under/overflowing product); C03 default-seed calls got extreme-magnitude bounds',
    'C06-1': 'missed at first (faults were only injected inside policy.suggest()); C06 got the fault site "building the algorithm"',
    'C08-2': 'first run hung in the client polling loop (reported inconclusive); C08 got a logical poll cap and an unregistered-algorithm program class',
    'C09-2': 'missed at first (1 microsecond tolerance); C09 now compares instants exactly',
    'C12-2': 'missed at first (only the cache part of the persisted state was corrupted); C12 got designer-state corruption steps',
    'C13-2': 'missed at first (objective values never exactly 0.0); C13 scripts got an exact-zero plateau',
    'C14-1': 'missed by C14 at first (caught by C13); C14 got the stateless-policy hosting route',
    'C14-2': 'missed at first; C14 benchmark cases got HashingInfeasibleExperimenter wrapping in the fresh-process variant',
    'C16-1': 'first run ended INCONCLUSIVE (the harness could not build a valid conditional space); refusing a valid definition is now a violation',
    'C18-2': 'would have been missed (fresh warper per array); C18 got the reused-warper monitor before this seed was evaluated',
    'C02-4': 'a concurrency change (id lookup moved out of the study lock): not visible to the sequential C02 check, caught by C04',
    'C10-3': 'a concurrency change (CompleteTrial reads before taking the lock): not visible to the sequential C10 check, caught by C04 as a lost update',
    'C03-3': 'missed at first (no INTEGER bounds beyond 2^24); C03 got hostile parameter shapes for the continuifying designers',
    'C03-4': 'missed at first (no extreme log-scaled range for CMA-ES); C03 got extreme REVERSE_LOG / LOG ranges in CMA-ES spaces',
    'C05-3': 'missed by C05 at first, caught by C07 (the C05 reference is the real servicer, which shares the defect); C05 got a prefix containing a refused update, after which recovered and live state disagree',
    'C05-4': 'needs an interleaving inside one datastore method plus a crash: out of reach of the sequential crash injector; caught by C04 after the datastore lock itself became scheduler-visible (CreateStudy of another study rolls back the half-done DeleteStudy)',
    'C08-4': 'needs an interleaving AND a remote client: missed by C08 (sequential) and C04 (in-process); C04 now runs its SQLite half with a stand-in ServicerContext (wire semantics) and keeps exploring past listed findings',
    'C11-4': 'missed at first (unconfigured extra metric was always 7.0); C11 histories got NaN / inf extra metrics on tempting trials',
    'C13-3': 'missed with 5 shards / 55 s, caught by the registered quick configuration (12 shards) on seeds 0 and 1 and by the thorough tier',
    'C15-3': 'missed at first (BOOL values only as strings); C15 feeds Python-bool spellings',
    'C16-3': 'missed at first (spaces were always fully built before the first query); C16 builds half of the conditional spaces in two stages and queries them while flat',
    'C17-3': 'missed at first; C17 got the re-created-study scenario (same owner and id, changed declarations)',
    'C19-3': 'missed at first; C19 got budgets below one batch and just short of the pool sweep',
    'C19-4': 'missed at first; C19 got out-of-cube prior features',
    'C12-4': 'missed at first (no route kept a policy object, and with it the supporter of the first request, alive across requests); C12 got the kept-alive policy route',
    'C01-5': 'a concurrency change (StopTrial locks on the trial name): not visible to the sequential C01 check, caught by C04',
    'C01-6': 'missed at first (malformed names were only garbage); generators got near-miss names (an existing trial name plus a suffix / another spelling of its id), which also exposed a genuine defect of the unchanged tree (fix b9e3a0a)',
    'C04-5': 'found but at first filed under the known finding of the same RPC pair (id too coarse); known-finding ids now name what the deleted trial was; C04 also got a prefix with a pool of queued trials',
    'C05-5': 'missed at first (kill points were statement boundaries only in the quick tier); C05 got a journal-mode probe on the live connection and a thin syscall-level kill slice in the quick tier',
    'C05-6': 'not caught by C05 (its reference is the real servicer on a file, which shares the defect); caught by C07 (RAM vs SQL) through sibling study names that collide under LIKE',
    'C06-5': 'would have been missed (exception texts were short ASCII); C06 got hostile exception texts (empty, kilobytes, multi-byte) before this seed was evaluated',
    'C06-6': 'would have been missed (client probe accepted a normal return); the client probe now requires the failure to be reported, with text-less exceptions raised while the algorithm is built',
    'C07-5': 'missed at first (needs check / rollback / re-check); C07 and C05 got the committed-equals-visible monitor (second connection to the file after every answered call) and C07 compares early-stopping answers and algorithm reach across backends',
    'C08-5': 'caught; C08 also got bulky metadata values',
    'C09-5': 'missed at first (conversions ran under TZ=UTC only); C09 shards now run under different process time zones',
    'C10-5': 'caught by C10 (rollback by a refused update) and by the committed-equals-visible monitor of C07',
    'C09-6': 'missed at first (configs were only built from descriptions); C09 got the received-then-edited route, which also exposed a genuine defect (fix 9844d05)',
    'C11-5': 'missed at first (every trial reported its metrics in configuration order under names m0..); C11 histories got per-trial report orders, naming schemes and shuffled configuration order',
    'C11-6': 'missed at first (at most one safety metric); C11 histories got 0..3 safety metrics, each reported or not per trial',
    'C13-6': 'missed at first (no history reported a non-finite metric); C13 scripts got unusual metric values and a restart-point comparison',
    'C16-5': 'missed at first (one fresh study and one handle per case); C16 got the study life-cycle family (several handles, delete / re-create with a related space)',
    'C03-5': 'missed at first (non-linear scales only on positive ranges); C03 got the hostile-scale slice, which exposed a genuine defect (fix 4ca1f1c)',
    'C03-6': 'missed at first (defaults drawn from the domain, seeding observed directly only); C03 got infeasible defaults and seeding through policy / factory / service routes; a related genuine defect was repaired (fix 2aedc8f)',
    'C14-5': 'missed at first (every execution rebuilt all objects); C14 got factory-built benchmarks with one factory and runner serving several seeded runs',
    'C14-6': 'missed by C14 at first (caught by C13); C14 got Eagle cases that reach pool refill, hosted with a policy restored per request',
    'C17-5': 'missed by C17 at first (caught by C09); C17 got child names re-declared under other parent values',
    'C17-6': 'missed at first (only select() builders and to_proto() were used); C17 got the compact multi-valued spec and the factory(children=...) routes',
    'C19-5': 'missed at first (1-6 priors or more than the pool, never around the pool size; no score whose optimum the search cannot find); C19 got needle scores, planted prior positions and near-pool prior counts',
    'C19-6': 'missed at first (batch sizes dividing 100, at most 11 features); C19 got batch sizes 7/8/30/64, wide layouts and a capped pool',
    'C18-5': 'missed at first (only output_warpers was driven); C18 got the label step of the multi-metric GP designer compared per metric column with a fresh pipeline',
    'C18-6': 'missed at first (re-used objects were only compared on warp()); the inverse of a re-used object is now compared with a fresh one',
    'C20-6': 'missed by C20 at first (caught by C14); C20 compares seeded noise across two fresh interpreters with different hash salts',
    'C12-5': 'would have been missed (infeasibility reason always non-empty); C12 histories got empty reasons before this seed was evaluated',
    'C12-6': 'would have been missed (no concurrency in C12); C12 got a completion by another worker injected between two reads of a running request',
    'C05-7': 'missed at first (needs a lock-free read between a write and its COMMIT); C04 got pure reads in the concurrent sets with SQL statement-level yield points',
    'C05-8': 'not caught by C05 (its reference shares the defect); caught by C07 (operation differs after delete and re-create)',
    'C02-8': 'not caught by C02; caught by C07 (two owners with the same study id)',
    'C06-7': 'caught; it also showed that the client probe was too strict (a successful retry of a transient failure is legitimate): injected faults now persist for the whole request, and the Pythia interface\'s own error classes are among the exception types',
    'C06-8': 'would have been missed (all runs under TZ=UTC); every shard of every check now runs under its own process time zone',
    'C07-8': 'missed at first (needs decide / delete / re-issue the id / ask again); C07 programs got the scripted id-reuse tail',
    'C08-8': 'would have been missed (programs are sequential); C08 got the probe with two clients on two different studies at the same time',
    'C04-8': 'missed at first (stale state only in server memory, pre-emption right after a datastore call); C04 got sequential follow-up calls after every schedule, a yield after the datastore lock is released and a paused-study prefix',
    'C10-7': 'not caught by C10 (its harness algorithm always delivers); caught by C06 / C02 (zero delivery with a state delta)',
    'C10-8': 'would have been missed (deltas were root-positioned Metadata objects); C10 hands over positioned views',
    'C12-7': 'missed at first (needs several delivered newest trials deleted); C12 histories got runs of newest-trial deletions',
    'C12-8': 'missed at first (no study re-creation in C12); C12 got the re-create step',
    'C11-8': 'missed at first (objective values were small integers and infinities); C11 histories and point sets got near-tie value profiles',
    'C14-7': 'missed by C14 at first (caught by C20); C14 got the shared-experimenter scenario with a fingerprint of the problem statement handed to each run',
    'C14-8': 'missed at first (seeds only from [0, 2^31); a restored run was only compared with itself); C14 got the accepted seed domain per designer and the in-RAM twin',
    'C15-7': 'missed at first (each array was decoded once, from a throw-away copy); C15 got decode purity and repeatability monitors',
    'C16-7': 'missed by C16 at first (caught by C09 and C17); C16 got the served family (structure, walk and add_trial verdicts on the space the service hands back)',
    'C16-8': 'missed at first (no monitor edited a returned object); C16 got the alias family',
    'C18-8': 'missed at first (needs update / predict / set_priors / predict on the single-metric GP designer); C18 got the GP bandit refit scenarios',
    'C19-8': 'missed at first (no parallel acquisition with a trial-padded partial prior set; no score finite on fill rows); C19 got the parallel-priors groups and the catneg score class',
    'C20-7': 'missed by C20 at first (caught by C14); C20 calls one factory object twice',
    'C20-8': 'missed at first (only returned statements were mutated); C20 got the creator-mutation probe',
    'C03-7': 'missed at first (every service case used a fresh study name); the C03 service route re-creates studies under names of deleted studies',
    'C01-1': 'a concurrency change: not visible to the sequential C01 check, caught by C04 (write monitor + serialisability)',
}


def main():
  os.makedirs(DST, exist_ok=True)
  rows = []
  for d in sorted(glob.glob(os.path.join(SRC, 'C*-*'))):
    name = os.path.basename(d)
    ev_path = os.path.join(d, 'eval.json')
    if not os.path.exists(ev_path):
      continue
    ev = json.load(open(ev_path))
    meta = {}
    try:
      meta = json.load(open(os.path.join(d, 'meta.json')))
    except Exception:  # pylint: disable=broad-except
      pass
    ok = (ev.get('applies') and ev.get('baseline_passed') == 131 and not ev.get('baseline_failed')
          and ev.get('demo_unchanged_rc') == 0 and ev.get('demo_changed_rc') not in (0, None))
    if not ok:
      print('NOT KEPT (not confirmed):', name, {k: ev.get(k) for k in ('applies', 'baseline_passed', 'demo_unchanged_rc', 'demo_changed_rc')})
      continue
    out = os.path.join(DST, name)
    os.makedirs(out, exist_ok=True)
    for f in ('patch.diff', 'demo.py'):
      shutil.copy(os.path.join(d, f), os.path.join(out, f))
    rebased = os.path.exists(os.path.join(d, 'patch.orig.diff'))
    if rebased:
      # a later fix: commit touched the same lines; the same change was re-made on the new
      # code (demo re-confirmed); the tester's original patch is kept alongside
      shutil.copy(os.path.join(d, 'patch.orig.diff'), os.path.join(out, 'patch.orig.diff'))
    det = ev.get('detection', {})
    m = {
        'property': meta.get('property', name.split('-')[0]),
        'title': meta.get('title'),
        'what_changed': meta.get('what_changed'),
        'why_it_breaks_the_property': meta.get('why_it_breaks_the_property'),
        'needs_to_manifest': meta.get('needs_to_manifest'),
        'files': meta.get('files'),
        'author': 'independent sub-agent given only the property text and a scratch worktree',
        'confirmed_by_maintainer': {
            'patch_applies_to_repo_head': ev.get('applies'),
            'baseline_suite': f"{ev.get('baseline_passed')} passed, {ev.get('baseline_failed')} failed (pinned 131-test suite, run in a scratch worktree with the patch)",
            'demo_on_unchanged_tree_exit': ev.get('demo_unchanged_rc'),
            'demo_on_changed_tree_exit': ev.get('demo_changed_rc'),
            'demo_changed_tail': ev.get('demo_changed_tail'),
            'how': 'tools/eval_seed.py <dir> --checks <ids> --budget 55 --shards 5 (scratch worktree, VV_REPO; /repo never touched)',
        },
        'detection': {k: {'detected': v['detected'], 'mechanisms': v['mechanisms'], 'wall_s': v['wall_s']} for k, v in det.items()},
        'history': HISTORY.get(name),
        'rebased_onto_later_fix_commits': rebased,
        'authors_test_notes': meta.get('tests_run'),
    }
    json.dump(m, open(os.path.join(out, 'meta.json'), 'w'), indent=1, ensure_ascii=False)
    caught = sorted(k.split('@')[0] for k, v in det.items() if v['detected'])
    missed = sorted(k.split('@')[0] for k, v in det.items() if not v['detected'])
    rows.append((name, (meta.get('title') or '')[:90], ', '.join(caught) or '-', ', '.join(missed) or '-', HISTORY.get(name, '')))
  with open(os.path.join(DST, 'TABLE.md'), 'w') as fh:
    fh.write('| seed | change | caught by | not caught by | note |\n|---|---|---|---|---|\n')
    for r in rows:
      fh.write('| ' + ' | '.join(x.replace('|', '/') for x in r) + ' |\n')
  print(f'kept {len(rows)} seeds')
  rounds = {}
  for r in rows:
    k = (int(r[0].split('-')[1]) + 1) // 2
    d = rounds.setdefault(k, {'n': 0, 'own': 0, 'other_only': 0, 'none': 0, 'strengthened': 0})
    d['n'] += 1
    prop = r[0].split('-')[0]
    caught = [c.strip() for c in r[2].split(',') if c.strip() and c.strip() != '-']
    if prop in caught:
      d['own'] += 1
    elif caught:
      d['other_only'] += 1
    else:
      d['none'] += 1
    if r[4] and ('missed' in r[4] or 'INCONCLUSIVE' in r[4] or 'too coarse' in r[4] or 'hung' in r[4]):
      d['strengthened'] += 1
  with open(os.path.join(DST, 'SUMMARY.json'), 'w') as fh:
    json.dump(rounds, fh, indent=1)
  print(rounds)


if __name__ == '__main__':
  main()
