#!/usr/bin/env python3
"""Regenerates MANIFEST.json from the table below (run from /verif)."""
import json
import os

HERE = os.path.dirname(os.path.dirname(os.path.abspath(__file__)))

CHECKS = {
    'C03': dict(
        engine='value-gen', category='exploration', design='4/C03',
        technique='independent membership oracle on every suggestion of every registered algorithm over three routes (designer, policy factory, real service)',
        text=('~4000 (space x algorithm x batch x history x route) cases per quick run, ~33k suggestions checked exactly against '
              'vv.gen.member; all 11 algorithm names + DEFAULT with per-algorithm counters; GP designers get a fixed share (6 cases quick, '
              '55+ thorough); refusals (exceptions) are allowed and counted, out-of-domain or incomplete suggestions never are.'),
        note='Membership is exact. GP cases are few because one suggestion costs seconds. Per-case SIGALRM limit turns hangs into counted refusals.'),
    'C13': dict(
        engine='value-gen', category='fault_enumeration', design='4/C13',
        technique='restart injection (dump -> real metadata protos / SQLite file -> new instance -> load) at every subset of steps; live-vs-restarted differential; service grid coverage ledger',
        text=('for each base case (designer, space, seed, script of <=6 steps) all 2^n restart subsets are enumerated at three layers: '
              'bare designer, PartiallySerializableDesignerPolicy over InRamPolicySupporter, real VizierServicer on an SQLite file with '
              'server restarts; compares suggestion streams, dump() equality, NSGA-II population/phase/ids, and that K grid suggestions are '
              'exactly the K grid points.'),
        note='NSGA-II streams are not compared (its RNG is documented as not persisted); eagle dump timestamp masked.'),
    'C14': dict(
        engine='value-gen', category='exploration', design='4/C14',
        technique='paired executions with equal (designer, problem, seed, history) under perturbed globals / interleaved studies / fresh subprocess with another PYTHONHASHSEED; seed-sensitivity pairs; seeded BenchmarkRunner pairs',
        text=('random, quasi-random, shuffled grid, eagle, NSGA-II, CMA-ES, GP bandit, GP-UCB-PE streams and BenchmarkRunner runs '
              '(18 BBOB x 9 noise types) compared pairwise exactly; variants: repeat, random/np.random/jax/time perturbed, interleaved, '
              'fresh process, after PythiaServicer construction; three different seeds must not give one stream.'),
        note='Cross-process GP mismatches count only when stable over 3 re-runs. GP pairs are few (4 quick).'),
    'C08': dict(
        engine='rpc-model', category='exploration', design='4/C08',
        technique='six-way differential of client-boundary traces (local / gRPC / split-Pythia x RAM / SQLite) + absolute client_abc promise monitors + server-side write monitor',
        text=('~600 generated client programs per quick run, each replayed through the real client library on six deployment x '
              'datastore combinations under a fresh owner; every method call recorded as normalised return value or exception class; '
              'traces must be equal (bulky 20-70 kB metadata values included); one probe per shard runs two clients on two different studies '
              'at the same time with a slow algorithm in every deployment; missing study/trial => ResourceNotFoundError, finished study => [], add_trial outside the space '
              '=> ValueError, complete() without data => ValueError; lifecycle monitor on every server-side trial write.'),
        note='Datastore NotFoundError in process and status NOT_FOUND over the wire count as the same error class; messages are not compared.'),
    'C19': dict(
        engine='value-gen', category='exploration', design='4/C19',
        technique='result monitors on every VectorizedOptimizer call + jax.debug.callback log of every evaluated batch + independent numpy re-scoring outside jit',
        text=('layouts (0..6 continuous, 0..5 categorical, 3 padding schedules) x eagle (3 configs) and random strategies x 10 score '
              'function classes x 6 prior classes x count/batch relations: count, unit cube, category range, padding fill and masks, '
              'reward == score(candidate), returned == best evaluated, never worse than best prior, NaN never preferred, same seed '
              'bitwise identical, different seeds differ.'),
        note='Re-evaluation tolerance 5e-5*magnitude (float32) / 1e-11 (float64); JIT cost bounds the number of distinct shapes (~50 per quick run).'),
    'C05': dict(
        engine='crash', category='fault_enumeration', design='4/C05',
        technique='SIGKILL injection at every SQL execute/commit boundary of a forked real server (exhaustive per RPC x prefix) + strace syscall-level kills (slice in quick, full in thorough) + restart and recovery oracle + committed==visible monitor (second connection) + journal-mode probe of the live connection',
        text=('68 (prefix, victim RPC) items, every before/after execute/commit boundary of the victim hit (~1400 crash points per '
              'quick run, dry run counts boundaries): after restart on the same file the state must equal acknowledged-only or '
              'acknowledged+victim (single-resource calls), each record one of the two versions (SuggestTrials / early stopping), all '
              'records parse, ids unique, legal states, no orphan rows, and suggest+complete works for the same and a new worker. '
              'After every answered call of the reference runs every table is read through the server connection and through a second '
              'sqlite3 connection (an acknowledged change still pending is reported at once); PRAGMA journal_mode of the live connection '
              'must allow rollback. Quick runs 3 pwrite64 kill points per shard inside SQLite via strace inject; thorough all '
              'pwrite64/fdatasync/unlink points of 12 items.'),
        note=('Process death only (no power loss / torn sectors). Expected states are produced by the real servicer without a crash. '
              'Child created with fork() from an initialised worker.')),
    'C20': dict(
        engine='value-gen', category='exploration', design='4/C20',
        technique='recording experimenter between every two wrapper layers + per-wrapper algebraic relation monitors against independent oracles',
        text=('~4800 random wrapper stacks (depth 1..3) per quick run over BBOB(24), Branin, Hartmann, SimpleKD, DTLZ/ZDT/WFG bases: '
              'every trial completed with the statement metric names, parameters deep-equal to a snapshot, problem_statement by value, '
              'inner call exactly once at the oracle-predicted point, outcome = documented transform, infeasibility marks survive, '
              'seeded noise reproducible (second object, and two fresh interpreters with different hash salts), batch == one-by-one.'),
        note='Base references: direct BBOB/optproblems calls, Branin/Hartmann re-implemented from published formulae. Unseeded noise not tested.'),
    'C04': dict(
        engine='sched', category='exploration', design='4/C04',
        technique='controlled thread scheduler (bounded-preemption DFS + random) over real servicer threads; offline check of each observed outcome against all serial orders up to trial-id bijection; free-running stress judged by conservation invariants',
        text=('~1200 (prefix, concurrent set) combos x 2 datastores (8 prefixes incl. a pool of queued trials and a paused study; pairs and '
              'triples of 13 mutating RPC kinds, every multi-step writer paired with 4 pure reads); per combo schedules with <=2 (quick) / <=3 '
              '(thorough) pre-emptions, cheapest first, capped, plus random schedules; yield points: acquisition of every service lock and of '
              'the datastore lock, release of the datastore lock, and with a read in the set every SQL statement / commit / rollback; half of '
              'the matrix with gRPC-handler error semantics; ~40k schedules per quick run (a time-boxed, seed-shuffled half of the combos; '
              'thorough covers all). Per schedule: deadlock detector, unfinished-operation scan, write monitor, persisted-algorithm-counter '
              'check, comparison with every serial order up to trial-id bijection, and three sequential follow-up calls compared as well '
              '(state living only in server memory). Plus 8-12 free threads x 60-150 ops incl. racing reads, unique payload ids checked for '
              'lost measurements / metadata / duplicate ids; deadlock decided on progress, not wall clock.'),
        note=('Serial outcomes come from the real servicer run sequentially (serialisability only). A pre-emption between two plain Python '
              'statements outside the yield points, sqlalchemy internals or grpc thread pools are only reached by the stress part. Known-finding '
              'ids name the failing history (which trial is deleted / whose response differs).')),
    'C09': dict(
        engine='value-gen', category='exploration', design='4/C09',
        technique='round-trip and re-conversion monitors on every pyvizier<->proto converter over generated values + through-service read-back',
        text=('~30k generated values per quick run over all converter pairs (StudyConfig incl. conditional depth 1..4, '
              'ProblemStatement, Trial, TrialSuggestion, Measurement, MetadataDelta, Suggest/EarlyStop request+decision): '
              'from_proto(to_proto(x)) == x under the stated equivalence and to_proto(from_proto(to_proto(x))) byte-identical; '
              'a slice is written through CreateStudy/CreateTrial/CompleteTrial and read back; received-then-edited configs (from_proto, '
              'edit script over metadata / parameters / metrics / settings, resend) must arrive as edited; shards run under different '
              'process time zones.'),
        note='Equivalence masks only the four documented non-transmitted fields; instants compared exactly (microsecond resolution); metrics compared as name-keyed maps.'),
    'C11': dict(
        engine='value-gen', category='exploration', design='4/C11',
        technique='brute-force definitional Pareto oracle vs every Pareto routine and study-level optimal-trial query on generated point sets / histories',
        text=('14 point-set classes (lattices forcing ties/duplicates, +-inf, chains, antichains, float64-only distinctions) x naive, '
              'fast (5 thresholds x 2 bases), JAX, is_frontier/get_frontier (5 shard counts), is_pareto_optimal_against, pareto_rank '
              '(xla, nsga2); study histories of 8 trial kinds through ListOptimalTrials (RAM+SQL), clients.optimal_trials, GetBestTrials, '
              'with metric naming schemes, per-trial report orders, shuffled configuration order, 0..3 safety metrics reported or not per '
              'trial, and near-tie value profiles (unit steps at 2^20, 2^-20 steps at 1, 2^-40 at 0, float64-only steps).'),
        note='JAX routines only see float32-exact values; NaN rows in raw point sets carry no verdict (outside the quantifier); safety-metric studies accept five readings.'),
    'C15': dict(
        engine='value-gen', category='exploration', design='4/C15',
        technique='round-trip / unit-interval / one-hot / decode-into-space monitors on all trial<->array converters over spaces x option tuples x points x arbitrary arrays',
        text=('96+48 option tuples of the Default/TrialToArray converters, padded converters (3x3 schedules), model-input converter, '
              'ProblemAndTrialsScaler, feature mapper, label converters; oracles computed from the plain space description '
              '(vv.gen.member for decode-into-space with clipping on); every array handed to a decoder must be bitwise unchanged and a second '
              'decode of the same array must give the same result (labels in both documented shapes).'),
        note='Exactness demanded only where the dtype can represent the value; DOUBLE tolerance 8*eps*max(|lo|,|hi|) (relative for LOG, reflected for REVERSE_LOG).'),
    'C16': dict(
        engine='value-gen', category='exploration', design='4/C16',
        technique='independent membership oracle / validity predicate / recursive conditional walk vs contains, builders and SequentialParameterBuilder',
        text=('16 assignment classes vs SearchSpace.contains and ParameterConfig.contains; builder accept/reject + normalisation table '
              'over 8 builders; dfs/bfs walks on conditional trees of depth <=3; clients.Study.add_trial refusal iff non-member.'),
        note='A non-member refused by any exception counts as refused; conditional contains must raise NotImplementedError.'),
    'C17': dict(
        engine='value-gen', category='exploration', design='4/C17',
        technique='declared-type oracle on trial_parameters / clients.Trial.parameters over generated typed spaces and trials on RAM, SQLite and gRPC',
        text=('bool / auto-cast discrete / float discrete / double / categorical / integer leaves, indexed families in shuffled order, '
              'conditional children under 1-3 parent values, depth <=3; value equality + exact external type + index order + active set + '
              'rejection of unknown/inactive parameters.'),
        note='INTEGER parameters declare no external type: only the value is compared there.'),
    'C01': dict(
        engine='rpc-model', category='exploration', design='4/C01',
        technique='generated RPC programs on the real servicer vs sequential reference model + datastore write monitor',
        text=('~1400 generated programs per quick run (30k calls, both datastores): after every call the outcome class, the '
              'response and the complete stored state are compared with the reference model; a failing call must leave the '
              'stored data unchanged (before/after snapshots); every stored trial write is checked by the lifecycle monitor. '
              'Evidence lists the (RPC x pre-state x outcome) cells visited and transitions seen.'),
        note=('Trusted: vv/model.py (transcription of the documented API, permissive where the docs leave a choice), '
              'abstraction of protos (timestamps by presence). In-process servicer only; wire behaviour is C08.')),
    'C02': dict(
        engine='rpc-model', category='exploration', design='4/C02',
        technique='suggest-response monitor (reference model following observed choices) under a delivery-shaping harness algorithm',
        text=('Programs of suggest/complete/request/add/delete/stop by 3 workers with the harness algorithm delivering N+delta '
              '(delta -N..+3): response size, own-ACTIVE-first, pool-before-algorithm, ownership, fresh ids, surplus queued as '
              'REQUESTED (stored state), operation numbering, algorithm reached iff shortfall.'),
        note='Trusted: vv/model.py _follow_suggest; harness algorithm plugged in via the documented policy_factory argument.'),
    'C06': dict(
        engine='rpc-model', category='fault_enumeration', design='4/C06',
        technique='fault-injecting algorithm (12 exception types incl. the Pythia interface\'s own error classes x suggest / early-stop / building the algorithm x first/k-th/every, persistent for the whole request; hostile exception texts; deliveries 0..N+3) + unfinished-operation scan + reach-again probes + client probe (failure must be raised, poll cap)',
        text=('~700 fault scenarios per quick run on in-process Pythia (RAM, SQLite) and remote Pythia over gRPC; after each call '
              'no stored operation may be done=False, failures must be reported, later requests by the same/other worker must '
              'reach the algorithm again; VizierClient.get_suggestions must terminate within 20 polls.'),
        note='Trusted: harness policy/controller, model. early_stop_recycle_period=0 so a later check may reach the algorithm.'),
    'C07': dict(
        engine='rpc-model', category='exploration', design='4/C07',
        technique='three-way differential (RAM / sqlite memory / sqlite file) of outcome classes, responses, ordered stored state, early-stopping answers and algorithm reach after every call + committed==visible monitor on the SQLite file',
        text=('Each program runs on three real servicers; pairwise comparison after every call plus GetOperation comparison at '
              'the end; the RAM run is also checked against the reference model. Workload aimed at delete+re-create, failed '
              'metadata updates (missing and invalid trial ids), early stopping with deterministic harness decisions, unknown owners, near-miss '
              'resource names, sibling study names that collide under LIKE, and a scripted id-reuse tail (decide about a trial, delete it, '
              'hand out the next one, ask again). After every call on the SQLite file all tables are read through the server connection and '
              'through a second connection and must agree.'),
        note='Malformed resource names may be INVALID on one backend and NOT_FOUND on another (counted as the same rejection).'),
    'C10': dict(
        engine='rpc-model', category='exploration', design='4/C10',
        technique='last-writer-wins map model compared after every update (service, clients, in-RAM supporter) + icontract codec post-condition + exhaustive collision check',
        text=('Namespace codec: all 585 tuples of length <=3 over an adversarial alphabet (exhaustive) + random; store: ~750 '
              'update sequences per quick run with read-back of complete (ns,key)->value maps after each update, failed updates '
              'must change nothing.'),
        note='Trusted: flatten() of vz.Metadata via all_items(); icontract wrapper records and never aborts.'),
    'C12': dict(
        engine='rpc-model', category='exploration', design='4/C12',
        technique='recording designer behind the real policy wrappers + exactly-once ledger keyed by trial identity',
        text=('Every Designer.update() is logged with the ground-truth trial table of that instant; ledger checks active==ACTIVE '
              'now, completed==not-yet-delivered completed trials, no duplicates, across service (state via metadata, rebuilt '
              'per request), DesignerPolicy, a policy kept alive over InRamPolicySupporter, one policy object kept alive per study by the '
              'factory, and an SQLite file with server restarts; deletions (incl. runs of the newest trials), study re-creation under the same '
              'name, state corruption, empty infeasibility reasons, and a completion by another worker injected between two reads of a '
              'running request (yield point at the supporter boundary).'),
        note='Trusted: WriteMonitor.created_serial as trial identity; ledger resets when the policy could not restore state.'),
    'C18': dict(
        engine='value-gen', category='exploration', design='4/C18',
        technique='runtime monitors on every warp()/unwarp() call of the real warpers over generated label arrays',
        text=('Each quick run drives ~30k warp() executions (14 subjects x 12 array classes) through monitors for '
              'shape, finiteness, bitwise input snapshot, infeasible<=worst feasible, rank preservation (default '
              'pipeline family), no order reversal (all subjects) and unwarp(warp(y))==y; a re-used warper object must warp and un-warp '
              'like a fresh one; the multi-metric GP designer\'s own label step is compared per metric column with a fresh default '
              'pipeline. Held-on-what-was-executed; '
              'the generator is seeded so other seeds reach other arrays.'),
        note=('Trusted: numpy comparison semantics, the harness generators. Tolerances: distinct-stay-distinct only '
              'for gaps >1e-9 of range; reversal slack 1e-12 relative; extreme (>=1e150) class only finiteness.')),
}

NOT_YET = 'check not built yet in this round (design in DESIGN.md section 4); no claim is made'


def main():
  with open(os.path.join(HERE, 'properties.jsonl')) as fh:
    props = [json.loads(l)['id'] for l in fh if l.strip()]
  checks = []
  for pid in props:
    if pid not in CHECKS:
      continue
    c = CHECKS[pid]
    checks.append({
        'property_id': pid,
        'quick_cmd': f'/venv/bin/python -m vv.run {pid} --tier quick',
        'thorough_cmd': f'/venv/bin/python -m vv.run {pid} --tier thorough',
        'evidence_file': f'evidence/{pid}.json',
        'replay_cmd_template': f'/venv/bin/python -m vv.run {pid} --replay {{path}}',
        'engine': c['engine'],
        'level_claimed': {'category': c['category'], 'text': c['text'],
                          'design_ref': f'DESIGN.md section {c["design"]}'},
        'level_note': c['note'],
        'technique': c['technique'],
    })
  manifest = {
      'version': 1,
      'setup_cmd': './setup.sh',
      'hooks': {
          'guard': 'GOOGLE_VIZIER_VERIF',
          'enable': ('no source hooks exist: every observation point is reached from the harness by wrapping '
                     'objects / decorating functions (see DESIGN.md section 5); checks import /repo as it is'),
          'baseline_off_cmd': ('cd /repo && /venv/bin/python -m pytest -ra -q -p no:cacheprovider --timeout=900 '
                               '--continue-on-collection-errors'),
          'source_commits': [],
          'add_only': True,
      },
      'engines': [
          {'name': 'value-gen', 'path': 'vv/checks', 'serves_properties':
           [p for p in props if p in CHECKS and CHECKS[p]['engine'] == 'value-gen'],
           'kind_free_text': 'seeded generators + runtime monitors / reference oracles on the real functions'},
          {'name': 'rpc-model', 'path': 'vv/service.py', 'serves_properties':
           [p for p in props if p in CHECKS and CHECKS[p]['engine'] == 'rpc-model'],
           'kind_free_text': 'generated RPC programs against the real servicer, sequential reference model, datastore write monitor'},
          {'name': 'sched', 'path': 'vv/sched.py', 'serves_properties':
           [p for p in props if p in CHECKS and CHECKS[p]['engine'] == 'sched'],
           'kind_free_text': 'controlled thread scheduler + serialisability history checker'},
          {'name': 'crash', 'path': 'vv/crash.py', 'serves_properties':
           [p for p in props if p in CHECKS and CHECKS[p]['engine'] == 'crash'],
           'kind_free_text': 'SIGKILL injection at SQL statement/commit boundaries + restart oracle'},
      ],
      'checks': checks,
      'notes': ('Technique family: runtime monitoring. One entry point: python -m vv.run <id>. Exit 0 held / 1 violation / '
                '2 inconclusive. known_findings.json is matched by abstract mechanism id.'),
      'not_applicable': [{'property_id': p, 'reason': NOT_YET} for p in props if p not in CHECKS],
  }
  manifest['engines'] = [e for e in manifest['engines'] if e['serves_properties']]
  with open(os.path.join(HERE, 'MANIFEST.json'), 'w') as fh:
    json.dump(manifest, fh, indent=1)
  print('wrote MANIFEST.json with', len(checks), 'checks')


if __name__ == '__main__':
  main()
