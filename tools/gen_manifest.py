#!/usr/bin/env python3
"""Regenerates MANIFEST.json from the table below (run from /verif)."""
import json
import os

HERE = os.path.dirname(os.path.dirname(os.path.abspath(__file__)))

CHECKS = {
    'C18': dict(
        engine='value-gen', category='exploration', design='4/C18',
        technique='runtime monitors on every warp()/unwarp() call of the real warpers over generated label arrays',
        text=('Each quick run drives ~30k warp() executions (14 subjects x 12 array classes) through monitors for '
              'shape, finiteness, bitwise input snapshot, infeasible<=worst feasible, rank preservation (default '
              'pipeline family), no order reversal (all subjects) and unwarp(warp(y))==y. Held-on-what-was-executed; '
              'the generator is seeded so other seeds reach other arrays.'),
        note=('Trusted: numpy comparison semantics, the harness generators. Tolerances: distinct-stay-distinct only '
              'for gaps >1e-9 of range; reversal slack 1e-12 relative; extreme (>=1e150) class only finiteness.')),
}

NOT_YET = 'check not built yet in this round (design in DESIGN.md section 4); no claim is made'


def main():
  with open(os.path.join(HERE, 'properties.jsonl')) as fh:
    props = [json.loads(l)['id'] for l in fh if l.strip()]
  checks = []
  for pid in props:
    if pid not in CHECKS:
      continue
    c = CHECKS[pid]
    checks.append({
        'property_id': pid,
        'quick_cmd': f'/venv/bin/python -m vv.run {pid} --tier quick',
        'thorough_cmd': f'/venv/bin/python -m vv.run {pid} --tier thorough',
        'evidence_file': f'evidence/{pid}.json',
        'replay_cmd_template': f'/venv/bin/python -m vv.run {pid} --replay {{path}}',
        'engine': c['engine'],
        'level_claimed': {'category': c['category'], 'text': c['text'],
                          'design_ref': f'DESIGN.md section {c["design"]}'},
        'level_note': c['note'],
        'technique': c['technique'],
    })
  manifest = {
      'version': 1,
      'setup_cmd': './setup.sh',
      'hooks': {
          'guard': 'GOOGLE_VIZIER_VERIF',
          'enable': ('no source hooks exist: every observation point is reached from the harness by wrapping '
                     'objects / decorating functions (see DESIGN.md section 5); checks import /repo as it is'),
          'baseline_off_cmd': ('cd /repo && /venv/bin/python -m pytest -ra -q -p no:cacheprovider --timeout=900 '
                               '--continue-on-collection-errors'),
          'source_commits': [],
          'add_only': True,
      },
      'engines': [
          {'name': 'value-gen', 'path': 'vv/checks', 'serves_properties':
           [p for p in props if p in CHECKS and CHECKS[p]['engine'] == 'value-gen'],
           'kind_free_text': 'seeded generators + runtime monitors / reference oracles on the real functions'},
          {'name': 'rpc-model', 'path': 'vv/service.py', 'serves_properties':
           [p for p in props if p in CHECKS and CHECKS[p]['engine'] == 'rpc-model'],
           'kind_free_text': 'generated RPC programs against the real servicer, sequential reference model, datastore write monitor'},
          {'name': 'sched', 'path': 'vv/sched.py', 'serves_properties':
           [p for p in props if p in CHECKS and CHECKS[p]['engine'] == 'sched'],
           'kind_free_text': 'controlled thread scheduler + serialisability history checker'},
          {'name': 'crash', 'path': 'vv/crash.py', 'serves_properties':
           [p for p in props if p in CHECKS and CHECKS[p]['engine'] == 'crash'],
           'kind_free_text': 'SIGKILL injection at SQL statement/commit boundaries + restart oracle'},
      ],
      'checks': checks,
      'notes': ('Technique family: runtime monitoring. One entry point: python -m vv.run <id>. Exit 0 held / 1 violation / '
                '2 inconclusive. known_findings.json is matched by abstract mechanism id.'),
      'not_applicable': [{'property_id': p, 'reason': NOT_YET} for p in props if p not in CHECKS],
  }
  manifest['engines'] = [e for e in manifest['engines'] if e['serves_properties']]
  with open(os.path.join(HERE, 'MANIFEST.json'), 'w') as fh:
    json.dump(manifest, fh, indent=1)
  print('wrote MANIFEST.json with', len(checks), 'checks')


if __name__ == '__main__':
  main()
